#!/usr/bin/env python3
"""regenerates MANIFEST.json from the table below (keeps it valid at all times)."""
import json, subprocess
NA = {
"C01":"value of an expression is a pure function of the expression text and operand values; no schedule, clock, I/O or fault for a simulator to control",
"C02":"control flow of a single-threaded program is a pure function of the program; needs program generation, not simulation",
"C03":"parsing is a pure function of the character sequence",
"C04":"tokenisation / numeric DFA / identifier-range lookup are pure functions of their input",
"C05":"termination and crash-freedom of the front end over all inputs is input fuzzing; there is no clock, schedule or fault in it",
"C06":"scoping is a pure function of the program on one symbol table; its fault-dependent clause (scopes after a handled exception) is exercised inside the C09 harness",
"C07":"copy-vs-share semantics of one single-threaded heap; no interleaving or fault",
"C08":"argument/receiver binding is a pure function of the program; receiver confusion after failed calls is exercised inside the C09 harness",
"C12":"sequential model conformance of one list/dictionary; the dictionary never iterates its Go map, so there is no order seam to drive",
"C13":"literal decoding is a pure function of the literal",
"C14":"text slicing / formatting are pure functions of their arguments",
"C19":"JSON encode/decode is a pure function of value/text; its one schedule-dependent clause (key order from Go map iteration) is decided under C11's seam",
}
CLAIMED_ALL = ["C09","C10","C11","C15","C16","C17","C18","C20"]
CHECKS = {
 "C11": dict(
   technique="deterministic simulation: seeded search over map-iteration-order schedules behind a source-inserted seam (T1), self-comparison oracle, tape shrinking + replay",
   text="Exploration: every range-over-map in Zn's source is rewritten (in a scratch copy rebuilt from /repo on each run) to take its order from the simulator; thousands of generated scenarios (scripts, module graphs on a simulated disk, HTTP requests, expression inputs) are each executed under the canonical order and under K tape-chosen orders and must be observably identical. A clean batch is sampling evidence, not proof; sites are inventoried with go/types and per-site hit counts are in the evidence.",
   ref="DESIGN.md §3 C11",
   note="Trusts: T1's rewrite is semantics-preserving (the repository's own tests pass on the transformed tree: `check selftest baseline`); only maps iterated by Zn's own code are behind the seam (encoding/json sorts keys itself); 取随机数 excluded by the property."),
}
def main():
    checks=[]
    for pid,c in sorted(CHECKS.items()):
        checks.append({
          "property_id":pid,
          "quick_cmd":"./bin/check %s --tier quick"%pid,
          "thorough_cmd":"./bin/check %s --tier thorough"%pid,
          "evidence_file":"/verif/evidence/%s.json"%pid,
          "replay_cmd_template":"./bin/check replay {path}",
          "engine":"zsim",
          "level_claimed":{"category":"exploration","text":c["text"],"design_ref":c["ref"]},
          "level_note":c["note"],
          "technique":c["technique"],
        })
    na=[{"property_id":k,"reason":v} for k,v in sorted(NA.items())]
    na+=[{"property_id":k,"reason":"claimed in DESIGN.md; its check is still under construction and not registered yet"} for k in CLAIMED_ALL if k not in CHECKS]
    m={
     "version":1,
     "setup_cmd":"cd /verif && sh ./setup.sh",
     "hooks":{"guard":"verif","enable":"none needed: every check copies /repo's working tree to a scratch directory outside /repo and /verif and applies a mechanical source transformation there (tool/simbuild: map-order seam, import substitution by shims, go/chan/select rewrite, access tracking); /repo itself carries no hooks","baseline_off_cmd":"cd /repo && GOFLAGS=-mod=mod GOPROXY=off GOSUMDB=off go test -vet=off -count=1 ./...","source_commits":[],"add_only":True},
     "engines":[{"name":"zsim","path":"/verif/sim","serves_properties":sorted(CHECKS),"kind_free_text":"deterministic simulator (choice tape, cooperative scheduler, simulated clock/disk/kernel) + source-to-source seam insertion (tool/simbuild) + driver (tool/cmd/check)"}],
     "checks":checks,
     "notes":"All checks: exit 0 held / 1 VIOLATION / 2 build-or-watchdog trouble. VERIF_SEED and VERIF_TIER are honoured. Genuine defects found and repaired are listed in known_findings.json (status fixed); see DESIGN.md.",
     "not_applicable":na,
    }
    json.dump(m,open('/verif/MANIFEST.json','w'),ensure_ascii=False,indent=1)
main()
