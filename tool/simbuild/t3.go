package simbuild

import (
	"fmt"
	"go/ast"
	"go/token"
	"go/types"

	"golang.org/x/tools/go/ast/astutil"
)

// T3 — the concurrency seam. `go`, channel sends/receives, `range` over a channel,
// `close` and `select` are rewritten into calls of the cooperative scheduler.

func (ft *fileTx) isChan(e ast.Expr) bool {
	t := ft.typeOf(e)
	if t == nil {
		return false
	}
	_, ok := t.Underlying().(*types.Chan)
	return ok
}

func (ft *fileTx) t3Func(fd *ast.FuncDecl, fname string) bool {
	changed := false
	nGo, nCh := 0, 0
	// 1. select statements (before their comm clauses are touched by the generic rewrites)
	// (a replacement is not walked by Apply, so a select nested in a case of another select is
	// found by the next pass: repeat until none is left)
	for again := true; again; {
		again = false
		astutil.Apply(fd.Body, func(c *astutil.Cursor) bool {
			sel, ok := c.Node().(*ast.SelectStmt)
			if !ok {
				return true
			}
			nCh++
			site := fmt.Sprintf("%s#select%d", fname, nCh)
			ft.rep.ChanSites = append(ft.rep.ChanSites, site)
			c.Replace(ft.rewriteSelect(sel))
			changed, again = true, true
			return true
		}, nil)
	}
	// 2. go statements, sends, receives, range over channel, close
	astutil.Apply(fd.Body, nil, func(c *astutil.Cursor) bool {
		switch n := c.Node().(type) {
		case *ast.GoStmt:
			nGo++
			site := fmt.Sprintf("%s#go%d", fname, nGo)
			ft.rep.GoSites = append(ft.rep.GoSites, site)
			c.Replace(ft.rewriteGo(n, site))
			changed = true
		case *ast.SendStmt:
			nCh++
			ft.rep.ChanSites = append(ft.rep.ChanSites, fmt.Sprintf("%s#send%d", fname, nCh))
			ft.needSim = true
			c.Replace(&ast.ExprStmt{X: &ast.CallExpr{Fun: sel("zsim", "Send"), Args: []ast.Expr{n.Chan, n.Value}}})
			changed = true
		case *ast.UnaryExpr:
			if n.Op == token.ARROW {
				nCh++
				ft.rep.ChanSites = append(ft.rep.ChanSites, fmt.Sprintf("%s#recv%d", fname, nCh))
				ft.needSim = true
				fn := "Recv"
				// v, ok := <-ch
				if as, ok := c.Parent().(*ast.AssignStmt); ok && len(as.Lhs) == 2 && len(as.Rhs) == 1 {
					fn = "Recv2"
				}
				if vs, ok := c.Parent().(*ast.ValueSpec); ok && len(vs.Names) == 2 && len(vs.Values) == 1 {
					fn = "Recv2"
				}
				c.Replace(&ast.CallExpr{Fun: sel("zsim", fn), Args: []ast.Expr{n.X}})
				changed = true
			}
		case *ast.RangeStmt:
			if ft.isChan(n.X) {
				nCh++
				ft.rep.ChanSites = append(ft.rep.ChanSites, fmt.Sprintf("%s#rangechan%d", fname, nCh))
				c.Replace(ft.rewriteRangeChan(n))
				changed = true
			}
		case *ast.CallExpr:
			if id, ok := n.Fun.(*ast.Ident); ok && id.Name == "close" && len(n.Args) == 1 && ft.isChan(n.Args[0]) {
				if obj := ft.pkg.TypesInfo.Uses[id]; obj != nil && obj.Pkg() == nil { // the builtin
					ft.needSim = true
					n.Fun = sel("zsim", "Close")
					changed = true
				}
			}
		}
		return true
	})
	return changed
}

// go f(a, b)  →  { __a1 := a; __a2 := b; zsim.Go(site, func() { f(__a1, __a2) }) }
func (ft *fileTx) rewriteGo(g *ast.GoStmt, site string) ast.Stmt {
	ft.needSim = true
	call := g.Call
	var pre []ast.Stmt
	if _, isLit := call.Fun.(*ast.FuncLit); isLit && len(call.Args) == 0 {
		return &ast.ExprStmt{X: &ast.CallExpr{Fun: sel("zsim", "Go"), Args: []ast.Expr{strLit(site), call.Fun}}}
	}
	newArgs := make([]ast.Expr, len(call.Args))
	for i, a := range call.Args {
		v := ft.tmp("a")
		pre = append(pre, &ast.AssignStmt{Lhs: []ast.Expr{ast.NewIdent(v)}, Tok: token.DEFINE, Rhs: []ast.Expr{a}})
		newArgs[i] = ast.NewIdent(v)
	}
	inner := &ast.CallExpr{Fun: call.Fun, Args: newArgs, Ellipsis: call.Ellipsis}
	lit := &ast.FuncLit{Type: &ast.FuncType{Params: &ast.FieldList{}}, Body: &ast.BlockStmt{List: []ast.Stmt{&ast.ExprStmt{X: inner}}}}
	pre = append(pre, &ast.ExprStmt{X: &ast.CallExpr{Fun: sel("zsim", "Go"), Args: []ast.Expr{strLit(site), lit}}})
	return &ast.BlockStmt{List: pre}
}

// for v := range ch { body }  →  for { v, __ok := zsim.Recv2(ch); if !__ok { break }; body }
func (ft *fileTx) rewriteRangeChan(rs *ast.RangeStmt) ast.Stmt {
	ft.needSim = true
	okv := ft.tmp("ok")
	chv := ft.tmp("c")
	var lhs ast.Expr = ast.NewIdent("_")
	tok := token.DEFINE
	if !isBlank(rs.Key) {
		lhs = rs.Key
		if rs.Tok == token.ASSIGN {
			tok = token.ASSIGN
		}
	}
	var first []ast.Stmt
	if tok == token.ASSIGN {
		first = append(first, &ast.DeclStmt{Decl: &ast.GenDecl{Tok: token.VAR, Specs: []ast.Spec{&ast.ValueSpec{Names: []*ast.Ident{ast.NewIdent(okv)}, Type: ast.NewIdent("bool")}}}})
	}
	first = append(first, &ast.AssignStmt{Lhs: []ast.Expr{lhs, ast.NewIdent(okv)}, Tok: tok, Rhs: []ast.Expr{&ast.CallExpr{Fun: sel("zsim", "Recv2"), Args: []ast.Expr{ast.NewIdent(chv)}}}})
	first = append(first, &ast.IfStmt{Cond: &ast.UnaryExpr{Op: token.NOT, X: ast.NewIdent(okv)}, Body: &ast.BlockStmt{List: []ast.Stmt{&ast.BranchStmt{Tok: token.BREAK}}}})
	loop := &ast.ForStmt{Body: &ast.BlockStmt{List: append(first, rs.Body.List...)}}
	return &ast.BlockStmt{List: []ast.Stmt{
		&ast.AssignStmt{Lhs: []ast.Expr{ast.NewIdent(chv)}, Tok: token.DEFINE, Rhs: []ast.Expr{rs.X}},
		loop,
	}}
}

// select { case x := <-a: A; case b <- v: B; default: D }  →
//
//	{ __c1 := a; __c2 := b; __v2 := v
//	  switch zsim.Select(hasDefault, zsim.CaseRecv(__c1), zsim.CaseSend(__c2, __v2)) {
//	  case 0: x := <-__c1; A          (the receive is rewritten to zsim.Recv by the second pass)
//	  case 1: __c2 <- __v2; B
//	  default: D } }
func (ft *fileTx) rewriteSelect(s *ast.SelectStmt) ast.Stmt {
	ft.needSim = true
	var pre []ast.Stmt
	var cases []ast.Expr
	var clauses []ast.Stmt
	hasDefault := false
	idx := 0
	for _, cl := range s.Body.List {
		cc := cl.(*ast.CommClause)
		if cc.Comm == nil {
			hasDefault = true
			clauses = append(clauses, &ast.CaseClause{List: nil, Body: cc.Body})
			continue
		}
		chv := ft.tmp("c")
		var comm ast.Stmt
		switch c := cc.Comm.(type) {
		case *ast.SendStmt:
			vv := ft.tmp("v")
			pre = append(pre,
				&ast.AssignStmt{Lhs: []ast.Expr{ast.NewIdent(chv)}, Tok: token.DEFINE, Rhs: []ast.Expr{c.Chan}},
				&ast.AssignStmt{Lhs: []ast.Expr{ast.NewIdent(vv)}, Tok: token.DEFINE, Rhs: []ast.Expr{c.Value}})
			cases = append(cases, &ast.CallExpr{Fun: sel("zsim", "CaseSend"), Args: []ast.Expr{ast.NewIdent(chv), ast.NewIdent(vv)}})
			comm = &ast.SendStmt{Chan: ast.NewIdent(chv), Value: ast.NewIdent(vv)}
		case *ast.ExprStmt: // <-ch
			u := c.X.(*ast.UnaryExpr)
			pre = append(pre, &ast.AssignStmt{Lhs: []ast.Expr{ast.NewIdent(chv)}, Tok: token.DEFINE, Rhs: []ast.Expr{u.X}})
			cases = append(cases, &ast.CallExpr{Fun: sel("zsim", "CaseRecv"), Args: []ast.Expr{ast.NewIdent(chv)}})
			comm = &ast.ExprStmt{X: &ast.UnaryExpr{Op: token.ARROW, X: ast.NewIdent(chv)}}
		case *ast.AssignStmt: // x := <-ch  /  x, ok = <-ch
			u := c.Rhs[0].(*ast.UnaryExpr)
			pre = append(pre, &ast.AssignStmt{Lhs: []ast.Expr{ast.NewIdent(chv)}, Tok: token.DEFINE, Rhs: []ast.Expr{u.X}})
			cases = append(cases, &ast.CallExpr{Fun: sel("zsim", "CaseRecv"), Args: []ast.Expr{ast.NewIdent(chv)}})
			comm = &ast.AssignStmt{Lhs: c.Lhs, Tok: c.Tok, Rhs: []ast.Expr{&ast.UnaryExpr{Op: token.ARROW, X: ast.NewIdent(chv)}}}
		}
		body := append([]ast.Stmt{comm}, cc.Body...)
		// a declared-but-unused receive variable would not compile; keep Go happy
		if as, ok := comm.(*ast.AssignStmt); ok && as.Tok == token.DEFINE {
			for _, l := range as.Lhs {
				if id, ok := l.(*ast.Ident); ok && id.Name != "_" {
					body = append([]ast.Stmt{comm, &ast.AssignStmt{Lhs: []ast.Expr{ast.NewIdent("_")}, Tok: token.ASSIGN, Rhs: []ast.Expr{ast.NewIdent(id.Name)}}}, cc.Body...)
					break
				}
			}
		}
		clauses = append(clauses, &ast.CaseClause{List: []ast.Expr{&ast.BasicLit{Kind: token.INT, Value: fmt.Sprint(idx)}}, Body: body})
		idx++
	}
	hd := "false"
	if hasDefault {
		hd = "true"
	}
	args := append([]ast.Expr{ast.NewIdent(hd)}, cases...)
	sw := &ast.SwitchStmt{Tag: &ast.CallExpr{Fun: sel("zsim", "Select"), Args: args}, Body: &ast.BlockStmt{List: clauses}}
	return &ast.BlockStmt{List: append(pre, sw)}
}

// insertYield puts a pre-emption point at the entry of every function.
func (ft *fileTx) insertYield(fd *ast.FuncDecl, fname string) {
	ft.needSim = true
	ft.rep.YieldSites++
	y := &ast.ExprStmt{X: &ast.CallExpr{Fun: sel("zsim", "Yield"), Args: []ast.Expr{strLit(fname)}}}
	fd.Body.List = append([]ast.Stmt{y}, fd.Body.List...)
}
