package simbuild

import "go/ast"

func (ft *fileTx) t3Func(fd *ast.FuncDecl, fname string) bool { return false }
func (ft *fileTx) t4Func(fd *ast.FuncDecl, fname string) bool { return false }
func (ft *fileTx) insertYield(fd *ast.FuncDecl, fname string)  {}
