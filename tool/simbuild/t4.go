package simbuild

import (
	"fmt"
	"go/ast"
	"go/token"
	"go/types"
	"strings"
)

// T4 — access tracking. Before every statement, reads and writes of (a) package-level
// variables of Zn packages and (b) fields of Zn's own struct types reached through a plain
// pointer variable (`x.f`, `x.f[i] = …`, `delete(x.f, k)`, `x.f = append(x.f, …)`) are
// reported to the simulator as (object, "Type.field"). sync.Mutex/RWMutex Lock/Unlock calls
// maintain the reporting task's lockset.

type t4loc struct {
	obj     ast.Expr  // nil for package-level variables
	key     string    // source text of the location (deduplication within one statement)
	declPos token.Pos // where the chain's root variable is declared (0: package level)
	field   string
}

func (ft *fileTx) isZnPkg(p *types.Package) bool {
	return p != nil && strings.HasPrefix(p.Path(), ZnModule) && !strings.Contains(p.Path(), "/znverif/")
}

// locOf classifies an expression as a tracked location (or not).
func (ft *fileTx) locOf(e ast.Expr) (t4loc, bool) {
	switch x := e.(type) {
	case *ast.ParenExpr:
		return ft.locOf(x.X)
	case *ast.Ident:
		obj := ft.pkg.TypesInfo.Uses[x]
		v, ok := obj.(*types.Var)
		if !ok || v.IsField() || v.Pkg() == nil || !ft.isZnPkg(v.Pkg()) || v.Parent() != v.Pkg().Scope() {
			return t4loc{}, false
		}
		return t4loc{field: v.Pkg().Name() + "." + v.Name()}, true
	case *ast.SelectorExpr:
		selection := ft.pkg.TypesInfo.Selections[x]
		if selection == nil {
			// qualified identifier pkg.Var
			if obj, ok := ft.pkg.TypesInfo.Uses[x.Sel].(*types.Var); ok && !obj.IsField() && ft.isZnPkg(obj.Pkg()) && obj.Parent() == obj.Pkg().Scope() {
				return t4loc{field: obj.Pkg().Name() + "." + obj.Name()}, true
			}
			return t4loc{}, false
		}
		if selection.Kind() != types.FieldVal {
			return t4loc{}, false
		}
		// the owner must be reached through a pure chain of variables, field selections and
		// dereferences (evaluating it again is free of effects); the identity of the location
		// is the ADDRESS of the field, evaluated under zsim.Safe because a link may be nil.
		root := chainRoot(x.X)
		if root == nil {
			return t4loc{}, false
		}
		var declPos token.Pos
		switch rv := ft.pkg.TypesInfo.Uses[root].(type) {
		case *types.Var:
			if rv.IsField() {
				return t4loc{}, false
			}
			if rv.Pkg() == nil || rv.Parent() != rv.Pkg().Scope() {
				declPos = rv.Pos()
			}
		case *types.PkgName:
		default:
			return t4loc{}, false
		}
		bt := ft.typeOf(x.X)
		if bt == nil {
			return t4loc{}, false
		}
		if pt, ok := bt.Underlying().(*types.Pointer); ok {
			bt = pt.Elem()
		}
		owner := "struct"
		if named, ok := bt.(*types.Named); ok {
			if !ft.isZnPkg(named.Obj().Pkg()) {
				return t4loc{}, false
			}
			owner = named.Obj().Name()
		}
		if _, ok := bt.Underlying().(*types.Struct); !ok {
			return t4loc{}, false
		}
		safe := &ast.CallExpr{Fun: sel("zsim", "Safe"), Args: []ast.Expr{&ast.FuncLit{
			Type: &ast.FuncType{Params: &ast.FieldList{}, Results: &ast.FieldList{List: []*ast.Field{{Type: &ast.InterfaceType{Methods: &ast.FieldList{}}}}}},
			Body: &ast.BlockStmt{List: []ast.Stmt{&ast.ReturnStmt{Results: []ast.Expr{addrOf(x)}}}},
		}}}
		return t4loc{obj: safe, field: owner + "." + x.Sel.Name, key: types.ExprString(x), declPos: declPos}, true
	}
	return t4loc{}, false
}

// mapLoc: an element access of a map is an access of THE MAP (identity = the map itself, which
// follows it through local aliases: `c := cache; c[k] = v` is a write of cache's map).
func (ft *fileTx) mapLoc(ix *ast.IndexExpr) (t4loc, bool) {
	t := ft.typeOf(ix.X)
	if t == nil {
		return t4loc{}, false
	}
	if !isMapType(t) {
		return t4loc{}, false
	}
	root := chainRoot(ix.X)
	if root == nil {
		return t4loc{}, false
	}
	var declPos token.Pos
	switch rv := ft.pkg.TypesInfo.Uses[root].(type) {
	case *types.Var:
		if !rv.IsField() && (rv.Pkg() == nil || rv.Parent() != rv.Pkg().Scope()) {
			declPos = rv.Pos()
		}
	case *types.PkgName:
	default:
		return t4loc{}, false
	}
	safe := &ast.CallExpr{Fun: sel("zsim", "Safe"), Args: []ast.Expr{&ast.FuncLit{
		Type: &ast.FuncType{Params: &ast.FieldList{}, Results: &ast.FieldList{List: []*ast.Field{{Type: &ast.InterfaceType{Methods: &ast.FieldList{}}}}}},
		Body: &ast.BlockStmt{List: []ast.Stmt{&ast.ReturnStmt{Results: []ast.Expr{ix.X}}}},
	}}}
	return t4loc{obj: safe, field: "map", key: "map:" + types.ExprString(ix.X), declPos: declPos}, true
}

// writeTarget finds the location a left-hand side stores into.
func (ft *fileTx) writeTarget(e ast.Expr) (t4loc, bool) {
	switch x := e.(type) {
	case *ast.ParenExpr:
		return ft.writeTarget(x.X)
	case *ast.IndexExpr:
		return ft.writeTarget(x.X)
	case *ast.SliceExpr:
		return ft.writeTarget(x.X)
	}
	return ft.locOf(e)
}

// mapWrite adds the write of a map whose element l stores into (or deletes).
func (ft *fileTx) mapWrite(l ast.Expr, wr *[]t4loc) {
	for {
		if p, ok := l.(*ast.ParenExpr); ok {
			l = p.X
			continue
		}
		break
	}
	if ix, ok := l.(*ast.IndexExpr); ok {
		if ml, ok := ft.mapLoc(ix); ok {
			*wr = append(*wr, ml)
		}
	}
}

func (ft *fileTx) reads(e ast.Node, out *[]t4loc) {
	if e == nil {
		return
	}
	ast.Inspect(e, func(n ast.Node) bool {
		switch x := n.(type) {
		case *ast.FuncLit:
			return false
		case *ast.SelectorExpr:
			if l, ok := ft.locOf(x); ok {
				*out = append(*out, l)
				if l.obj == nil {
					return false
				}
			}
		case *ast.IndexExpr:
			if l, ok := ft.mapLoc(x); ok {
				*out = append(*out, l)
			}
		case *ast.Ident:
			if l, ok := ft.locOf(x); ok {
				*out = append(*out, l)
			}
		}
		return true
	})
}

func (ft *fileTx) isMutex(e ast.Expr) bool {
	t := ft.typeOf(e)
	if t == nil {
		return false
	}
	if p, ok := t.Underlying().(*types.Pointer); ok {
		t = p.Elem()
	}
	n, ok := t.(*types.Named)
	if !ok || n.Obj().Pkg() == nil || n.Obj().Pkg().Path() != "sync" {
		return false
	}
	return n.Obj().Name() == "Mutex" || n.Obj().Name() == "RWMutex"
}

// lockCall recognises mu.Lock()/RLock()/Unlock()/RUnlock() and returns mu and whether it locks.
func (ft *fileTx) lockCall(call *ast.CallExpr) (ast.Expr, bool, bool) {
	se, ok := call.Fun.(*ast.SelectorExpr)
	if !ok || len(call.Args) != 0 || !ft.isMutex(se.X) {
		return nil, false, false
	}
	switch se.Sel.Name {
	case "Lock", "RLock":
		return se.X, true, true
	case "Unlock", "RUnlock":
		return se.X, false, true
	}
	return nil, false, false
}

func addrOf(e ast.Expr) ast.Expr {
	return &ast.UnaryExpr{Op: token.AND, X: e}
}

func (ft *fileTx) t4Func(fd *ast.FuncDecl, fname string) bool {
	changed := false
	var lists []*[]ast.Stmt
	ast.Inspect(fd.Body, func(n ast.Node) bool {
		switch x := n.(type) {
		case *ast.BlockStmt:
			lists = append(lists, &x.List)
		case *ast.CaseClause:
			lists = append(lists, &x.Body)
		case *ast.CommClause:
			lists = append(lists, &x.Body)
		}
		return true
	})
	for _, lp := range lists {
		var out []ast.Stmt
		for _, st := range *lp {
			var rd, wr []t4loc
			var post []ast.Stmt
			switch s := st.(type) {
			case *ast.AssignStmt:
				for _, l := range s.Lhs {
					if t, ok := ft.writeTarget(l); ok {
						wr = append(wr, t)
					}
					ft.mapWrite(l, &wr)
					if ix, ok := l.(*ast.IndexExpr); ok {
						ft.reads(ix.Index, &rd)
					}
					ft.ownerReads(l, &rd)
				}
				for _, r := range s.Rhs {
					ft.reads(r, &rd)
				}
			case *ast.IncDecStmt:
				if t, ok := ft.writeTarget(s.X); ok {
					wr = append(wr, t)
				}
				ft.mapWrite(s.X, &wr)
			case *ast.ExprStmt:
				if call, ok := s.X.(*ast.CallExpr); ok {
					if id, ok := call.Fun.(*ast.Ident); ok && id.Name == "delete" && len(call.Args) == 2 {
						if t, ok := ft.writeTarget(call.Args[0]); ok {
							wr = append(wr, t)
						}
						// delete(m, k): a write of the map m
						ft.mapWrite(&ast.IndexExpr{X: call.Args[0], Index: call.Args[1]}, &wr)
					}
					if mu, lock, ok := ft.lockCall(call); ok {
						ft.needSim = true
						if lock {
							// wait inside the simulator while another task holds the mutex, then take it for real
							mode := call.Fun.(*ast.SelectorExpr).Sel.Name
							out = append(out, &ast.ExprStmt{X: &ast.CallExpr{Fun: sel("zsim", "AwaitLock"), Args: []ast.Expr{addrOfMutex(ft, mu), strLit(mode)}}})
							post = append(post, &ast.ExprStmt{X: &ast.CallExpr{Fun: sel("zsim", "Lock"), Args: []ast.Expr{addrOfMutex(ft, mu)}}})
						} else {
							out = append(out, &ast.ExprStmt{X: &ast.CallExpr{Fun: sel("zsim", "Unlock"), Args: []ast.Expr{addrOfMutex(ft, mu)}}})
						}
						changed = true
					}
				}
				ft.reads(s.X, &rd)
			case *ast.DeferStmt:
				if mu, lock, ok := ft.lockCall(s.Call); ok && !lock {
					// defer mu.Unlock()  →  defer func() { zsim.Unlock(&mu); mu.Unlock() }()
					ft.needSim = true
					s.Call = &ast.CallExpr{Fun: &ast.FuncLit{Type: &ast.FuncType{Params: &ast.FieldList{}}, Body: &ast.BlockStmt{List: []ast.Stmt{
						&ast.ExprStmt{X: &ast.CallExpr{Fun: sel("zsim", "Unlock"), Args: []ast.Expr{addrOfMutex(ft, mu)}}},
						&ast.ExprStmt{X: s.Call},
					}}}}
					changed = true
				} else {
					for _, a := range s.Call.Args {
						ft.reads(a, &rd)
					}
				}
			case *ast.GoStmt:
				for _, a := range s.Call.Args {
					ft.reads(a, &rd)
				}
			case *ast.ReturnStmt:
				for _, r := range s.Results {
					ft.reads(r, &rd)
				}
			case *ast.IfStmt:
				ft.simple(s.Init, &rd, &wr)
				ft.reads(s.Cond, &rd)
			case *ast.ForStmt:
				ft.simple(s.Init, &rd, &wr)
				ft.reads(s.Cond, &rd)
				ft.simple(s.Post, &rd, &wr)
			case *ast.RangeStmt:
				ft.reads(s.X, &rd)
			case *ast.SwitchStmt:
				ft.simple(s.Init, &rd, &wr)
				ft.reads(s.Tag, &rd)
			case *ast.TypeSwitchStmt:
				ft.simple(s.Init, &rd, &wr)
				ft.simple(s.Assign, &rd, &wr)
			case *ast.DeclStmt:
				ft.reads(s.Decl, &rd)
			}
			line := ft.fset.Position(st.Pos()).Line
			emit := func(l t4loc, write bool) {
				if l.declPos != 0 && l.declPos >= st.Pos() && l.declPos < st.End() {
					return // the chain starts at a variable this very statement declares
				}
				ft.needSim = true
				ft.rep.AccessSites++
				var obj ast.Expr = ast.NewIdent("nil")
				if l.obj != nil {
					obj = l.obj
				}
				w := "false"
				if write {
					w = "true"
				}
				call := &ast.ExprStmt{X: &ast.CallExpr{Fun: sel("zsim", "Access"), Args: []ast.Expr{strLit(fmt.Sprintf("%s:%d", fname, line)), ast.NewIdent(w), obj, strLit(l.field)}}}
				out = append(out, &ast.IfStmt{Cond: sel("zsim", "Tracking"), Body: &ast.BlockStmt{List: []ast.Stmt{call}}})
				changed = true
			}
			seen := map[string]bool{}
			for _, l := range wr {
				k := "w" + l.field + "@" + l.key
				if !seen[k] {
					seen[k] = true
					emit(l, true)
				}
			}
			for _, l := range rd {
				k := "r" + l.field + "@" + l.key
				if !seen[k] && !seen["w"+l.field+"@"+l.key] {
					seen[k] = true
					emit(l, false)
				}
			}
			out = append(out, st)
			out = append(out, post...)
		}
		*lp = out
	}
	return changed
}

// simple collects the accesses of a simple statement used as the Init/Post/Assign part of a
// compound statement (approximation: they are reported before the compound statement).
func (ft *fileTx) simple(st ast.Stmt, rd, wr *[]t4loc) {
	switch s := st.(type) {
	case nil:
	case *ast.AssignStmt:
		for _, l := range s.Lhs {
			if t, ok := ft.writeTarget(l); ok {
				*wr = append(*wr, t)
			}
			ft.mapWrite(l, wr)
			if ix, ok := l.(*ast.IndexExpr); ok {
				ft.reads(ix.Index, rd)
			}
		}
		for _, r := range s.Rhs {
			ft.reads(r, rd)
		}
	case *ast.IncDecStmt:
		if t, ok := ft.writeTarget(s.X); ok {
			*wr = append(*wr, t)
		}
	case *ast.ExprStmt:
		ft.reads(s.X, rd)
	case *ast.DeclStmt:
		ft.reads(s.Decl, rd)
	}
}

func addrOfMutex(ft *fileTx, mu ast.Expr) ast.Expr {
	if t := ft.typeOf(mu); t != nil {
		if _, ok := t.Underlying().(*types.Pointer); ok {
			return mu
		}
	}
	return addrOf(mu)
}

// ownerReads records the reads of the links a store goes through (`a.b` in `a.b.c = v`).
func (ft *fileTx) ownerReads(l ast.Expr, rd *[]t4loc) {
	for {
		switch x := l.(type) {
		case *ast.ParenExpr:
			l = x.X
			continue
		case *ast.IndexExpr:
			l = x.X
			continue
		case *ast.SliceExpr:
			l = x.X
			continue
		case *ast.SelectorExpr:
			ft.reads(x.X, rd)
		}
		return
	}
}

// chainRoot returns the variable a pure selector chain starts from, or nil.
func chainRoot(e ast.Expr) *ast.Ident {
	for {
		switch x := e.(type) {
		case *ast.Ident:
			return x
		case *ast.ParenExpr:
			e = x.X
		case *ast.StarExpr:
			e = x.X
		case *ast.SelectorExpr:
			e = x.X
		default:
			return nil
		}
	}
}
