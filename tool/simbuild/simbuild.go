// Package simbuild performs the mechanical source-to-source transformation that puts
// every source of nondeterminism of DemoHn/Zn behind a seam owned by the simulator.
// It always works on a scratch copy of /repo's working tree; /repo is never modified.
package simbuild

import (
	"bytes"
	"fmt"
	"go/ast"
	"go/format"
	"go/token"
	"go/types"
	"os"
	"path/filepath"
	"sort"
	"strconv"
	"strings"

	"golang.org/x/tools/go/ast/astutil"
	"golang.org/x/tools/go/packages"
)

const (
	ZnModule = "github.com/DemoHn/Zn"
	ZsimPath = ZnModule + "/znverif/zsim"
	ShimBase = ZnModule + "/znverif/shim/"
)

// Options selects transformations.
type Options struct {
	Dir      string              // root of the scratch copy
	Patterns []string            // package patterns to load/transform
	Shims    map[string][]string // package path suffix (e.g. "pkg/io") -> std import paths to substitute
	T3       map[string]bool     // package path suffixes that get the concurrency seam
	Yield    map[string]bool     // package path suffixes that get Yield at function entries
	T4       map[string]bool     // package path suffixes that get access tracking
	Env      []string
}

// Report is what the transformation did (goes into the evidence).
type Report struct {
	MapSites   []string       // every range-over-map site, function-qualified
	ShimFiles  int            // files whose imports were substituted
	GoSites    []string       // T3: go statements
	ChanSites  []string       // T3: channel operations / selects
	YieldSites int            // T3: yields inserted
	AccessSites int           // T4
	Files      int            // files rewritten
	PerPkgMap  map[string]int // map sites per package
}

// shimName maps a std import path to the shim directory (= package name).
var shimName = map[string]string{
	"os":        "os",
	"os/exec":   "exec",
	"net":       "net",
	"time":      "time",
	"log":       "log",
	"os/signal": "signal",
	"syscall":   "syscall",
	"math/rand": "rand",
	"sync":      "sync",
}

func Transform(opt Options) (*Report, error) {
	fset := token.NewFileSet()
	cfg := &packages.Config{
		Mode: packages.NeedName | packages.NeedFiles | packages.NeedCompiledGoFiles | packages.NeedSyntax |
			packages.NeedTypes | packages.NeedTypesInfo | packages.NeedImports,
		Dir:   opt.Dir,
		Fset:  fset,
		Env:   opt.Env,
		Tests: false,
	}
	pkgs, err := packages.Load(cfg, opt.Patterns...)
	if err != nil {
		return nil, fmt.Errorf("packages.Load: %w", err)
	}
	sort.Slice(pkgs, func(i, j int) bool { return pkgs[i].PkgPath < pkgs[j].PkgPath })
	rep := &Report{PerPkgMap: map[string]int{}}
	for _, p := range pkgs {
		if len(p.Errors) > 0 {
			var msgs []string
			for _, e := range p.Errors {
				msgs = append(msgs, e.Error())
			}
			return nil, fmt.Errorf("package %s does not type-check in the scratch copy:\n  %s", p.PkgPath, strings.Join(msgs, "\n  "))
		}
		if !strings.HasPrefix(p.PkgPath, ZnModule) || strings.Contains(p.PkgPath, "/znverif/") {
			continue
		}
		suffix := strings.TrimPrefix(strings.TrimPrefix(p.PkgPath, ZnModule), "/")
		for i, f := range p.Syntax {
			fname := p.CompiledGoFiles[i]
			if strings.HasSuffix(fname, "_test.go") {
				continue
			}
			ft := &fileTx{pkg: p, file: f, fset: fset, rep: rep, suffix: suffix, opt: &opt}
			changed := ft.run()
			if changed {
				var buf bytes.Buffer
				if err := format.Node(&buf, fset, f); err != nil {
					return nil, fmt.Errorf("print %s: %w", fname, err)
				}
				if err := os.WriteFile(fname, buf.Bytes(), 0o644); err != nil {
					return nil, err
				}
				rep.Files++
			}
		}
	}
	sort.Strings(rep.MapSites)
	return rep, nil
}

type fileTx struct {
	pkg     *packages.Package
	file    *ast.File
	fset    *token.FileSet
	rep     *Report
	suffix  string
	opt     *Options
	needSim bool
	tmpN    int
}

func (ft *fileTx) run() bool {
	changed := false
	// ---- T1 (+T3/T4 per function)
	for _, d := range ft.file.Decls {
		fd, ok := d.(*ast.FuncDecl)
		if !ok || fd.Body == nil {
			continue
		}
		fname := ft.funcName(fd)
		if ft.opt.T3[ft.suffix] {
			if ft.t3Func(fd, fname) {
				changed = true
			}
		}
		if ft.t1Func(fd, fname) {
			changed = true
		}
		if ft.opt.T4[ft.suffix] {
			if ft.t4Func(fd, fname) {
				changed = true
			}
		}
		if ft.opt.Yield[ft.suffix] {
			ft.insertYield(fd, fname)
			changed = true
		}
	}
	// package-level var initialisers may contain func literals with map ranges: handle too
	for _, d := range ft.file.Decls {
		gd, ok := d.(*ast.GenDecl)
		if !ok || gd.Tok != token.VAR {
			continue
		}
		for _, s := range gd.Specs {
			vs := s.(*ast.ValueSpec)
			for _, v := range vs.Values {
				ast.Inspect(v, func(n ast.Node) bool {
					if fl, ok := n.(*ast.FuncLit); ok {
						name := ft.pkg.Name + ".<var " + vs.Names[0].Name + ">"
						if ft.t1Body(fl.Body, name, new(int)) {
							changed = true
						}
						return false
					}
					return true
				})
			}
		}
	}
	// ---- T2
	if subs, ok := ft.opt.Shims[ft.suffix]; ok {
		want := map[string]bool{}
		for _, s := range subs {
			want[s] = true
		}
		did := false
		for _, imp := range ft.file.Imports {
			p, _ := strconv.Unquote(imp.Path.Value)
			if want[p] {
				imp.Path.Value = strconv.Quote(ShimBase + shimName[p])
				imp.EndPos = 0
				did = true
			}
		}
		if did {
			ft.rep.ShimFiles++
			changed = true
		}
	}
	if ft.needSim {
		astutil.AddNamedImport(ft.fset, ft.file, "zsim", ZsimPath)
	}
	return changed
}

func (ft *fileTx) funcName(fd *ast.FuncDecl) string {
	name := ft.pkg.Name + "."
	if fd.Recv != nil && len(fd.Recv.List) > 0 {
		t := fd.Recv.List[0].Type
		if st, ok := t.(*ast.StarExpr); ok {
			t = st.X
		}
		if ix, ok := t.(*ast.IndexExpr); ok {
			t = ix.X
		}
		if ix, ok := t.(*ast.IndexListExpr); ok {
			t = ix.X
		}
		if id, ok := t.(*ast.Ident); ok {
			name += id.Name + "."
		}
	}
	return name + fd.Name.Name
}

func (ft *fileTx) tmp(prefix string) string {
	ft.tmpN++
	return fmt.Sprintf("__z%s%d", prefix, ft.tmpN)
}

func (ft *fileTx) typeOf(e ast.Expr) types.Type {
	if tv, ok := ft.pkg.TypesInfo.Types[e]; ok {
		return tv.Type
	}
	return nil
}

// ---------------------------------------------------------------- T1

func (ft *fileTx) t1Func(fd *ast.FuncDecl, fname string) bool {
	n := 0
	return ft.t1Body(fd.Body, fname, &n)
}

func (ft *fileTx) t1Body(body *ast.BlockStmt, fname string, counter *int) bool {
	changed := false
	astutil.Apply(body, nil, func(c *astutil.Cursor) bool {
		rs, ok := c.Node().(*ast.RangeStmt)
		if !ok {
			return true
		}
		t := ft.typeOf(rs.X)
		if t == nil {
			return true
		}
		if !isMapType(t) {
			return true
		}
		*counter++
		site := fmt.Sprintf("%s#%d", fname, *counter)
		ft.rep.MapSites = append(ft.rep.MapSites, site)
		ft.rep.PerPkgMap[ft.suffix]++
		ft.rewriteMapRange(rs, site)
		changed = true
		return true
	})
	return changed
}

// isMapType: a map type, or a type parameter all of whose type terms are map types
// (func f[M ~map[string]V, V any](m M) { for k := range m … } ranges over a map just the same).
func isMapType(t types.Type) bool {
	if _, ok := t.Underlying().(*types.Map); ok {
		return true
	}
	tp, ok := t.(*types.TypeParam)
	if !ok {
		return false
	}
	iface, _ := tp.Constraint().Underlying().(*types.Interface)
	if iface == nil {
		return false
	}
	found := false
	for i := 0; i < iface.NumEmbeddeds(); i++ {
		switch e := iface.EmbeddedType(i).(type) {
		case *types.Union:
			for j := 0; j < e.Len(); j++ {
				if _, ok := e.Term(j).Type().Underlying().(*types.Map); !ok {
					return false
				}
				found = true
			}
		default:
			if _, ok := e.Underlying().(*types.Map); !ok {
				return false
			}
			found = true
		}
	}
	return found
}

func isBlank(e ast.Expr) bool {
	if e == nil {
		return true
	}
	id, ok := e.(*ast.Ident)
	return ok && id.Name == "_"
}

// rewriteMapRange turns
//
//	for k, v := range X { body }
//
// into
//
//	for _, __zp := range zsim.MapPairs(site, X) { k := __zp.K; v, __zok := __zp.Get(); if !__zok { continue }; body }
//
// X is evaluated once; an entry deleted during the iteration is skipped, as Go does.
func (ft *fileTx) rewriteMapRange(rs *ast.RangeStmt, site string) {
	ft.needSim = true
	pv := ft.tmp("p")
	okv := ft.tmp("ok")
	tok := rs.Tok
	if tok == token.ILLEGAL {
		tok = token.DEFINE
	}
	var pre []ast.Stmt
	if !isBlank(rs.Key) {
		pre = append(pre, &ast.AssignStmt{Lhs: []ast.Expr{rs.Key}, Tok: tok, Rhs: []ast.Expr{sel(pv, "K")}})
	}
	get := &ast.CallExpr{Fun: sel(pv, "Get")}
	if !isBlank(rs.Value) {
		if tok == token.DEFINE {
			pre = append(pre, &ast.AssignStmt{Lhs: []ast.Expr{rs.Value, ast.NewIdent(okv)}, Tok: token.DEFINE, Rhs: []ast.Expr{get}})
		} else {
			pre = append(pre, &ast.DeclStmt{Decl: &ast.GenDecl{Tok: token.VAR, Specs: []ast.Spec{&ast.ValueSpec{Names: []*ast.Ident{ast.NewIdent(okv)}, Type: ast.NewIdent("bool")}}}})
			pre = append(pre, &ast.AssignStmt{Lhs: []ast.Expr{rs.Value, ast.NewIdent(okv)}, Tok: token.ASSIGN, Rhs: []ast.Expr{get}})
		}
	} else {
		pre = append(pre, &ast.AssignStmt{Lhs: []ast.Expr{ast.NewIdent("_"), ast.NewIdent(okv)}, Tok: token.DEFINE, Rhs: []ast.Expr{get}})
	}
	pre = append(pre, &ast.IfStmt{
		Cond: &ast.UnaryExpr{Op: token.NOT, X: ast.NewIdent(okv)},
		Body: &ast.BlockStmt{List: []ast.Stmt{&ast.BranchStmt{Tok: token.CONTINUE}}},
	})
	rs.Body.List = append(pre, rs.Body.List...)
	rs.X = &ast.CallExpr{
		Fun:  sel("zsim", "MapPairs"),
		Args: []ast.Expr{&ast.BasicLit{Kind: token.STRING, Value: strconv.Quote(site)}, rs.X},
	}
	rs.Key = ast.NewIdent("_")
	rs.Value = ast.NewIdent(pv)
	rs.Tok = token.DEFINE
}

func sel(x, s string) *ast.SelectorExpr {
	return &ast.SelectorExpr{X: ast.NewIdent(x), Sel: ast.NewIdent(s)}
}

func strLit(s string) *ast.BasicLit {
	return &ast.BasicLit{Kind: token.STRING, Value: strconv.Quote(s)}
}

// CopyTree copies src to dst skipping .git and any directory named in skip.
func CopyTree(src, dst string, skip map[string]bool) error {
	return filepath.Walk(src, func(p string, info os.FileInfo, err error) error {
		if err != nil {
			return err
		}
		rel, _ := filepath.Rel(src, p)
		if rel == "." {
			return os.MkdirAll(dst, 0o755)
		}
		if info.IsDir() && (info.Name() == ".git" || skip[rel]) {
			return filepath.SkipDir
		}
		target := filepath.Join(dst, rel)
		if info.IsDir() {
			return os.MkdirAll(target, 0o755)
		}
		if !info.Mode().IsRegular() {
			return nil
		}
		b, err := os.ReadFile(p)
		if err != nil {
			return err
		}
		return os.WriteFile(target, b, 0o644)
	})
}
