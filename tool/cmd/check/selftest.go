package main

import (
	"bufio"
	"encoding/json"
	"fmt"
	"os"
	"os/exec"
	"path/filepath"
	"sort"
	"strings"
	"sync"
)

// check selftest determinism  — same seed, many processes, GOMAXPROCS 1/4/16: the complete
//                               per-run digests (signature, scenario, event trace, decisions)
//                               must be identical.
// check selftest baseline     — the repository's own test suite on the TRANSFORMED tree with no
//                               simulated world active must give the baseline's passes.
func cmdSelftest(args []string) int {
	if len(args) < 1 {
		fmt.Fprintln(os.Stderr, "usage: check selftest determinism|baseline")
		return 2
	}
	s, err := buildScratch()
	defer s.cleanup()
	if err != nil {
		fmt.Fprintf(os.Stderr, "BUILD-TROUBLE: %v\n", err)
		return 2
	}
	switch args[0] {
	case "determinism":
		return selftestDeterminism(s, args[1:])
	case "baseline":
		return selftestBaseline(s)
	}
	return 2
}

func selftestDeterminism(s *scratch, args []string) int {
	ids := []string{"C09", "C10", "C11", "C15", "C16", "C17", "C18", "C20"}
	if len(args) > 0 {
		ids = args
	}
	nRuns := map[string]int{"C16": 150, "C20": 500}
	type job struct {
		id    string
		seed  int
		gmp   int
		rep   int
		out   string
	}
	var jobs []job
	for _, id := range ids {
		for _, seed := range []int{11, 12} {
			for _, g := range []int{1, 4, 16} {
				for rep := 0; rep < 2; rep++ {
					jobs = append(jobs, job{id, seed, g, rep, filepath.Join(s.Dir, fmt.Sprintf("det-%s-%d-%d-%d.json", id, seed, g, rep))})
				}
			}
		}
	}
	sem := make(chan struct{}, 12)
	var wg sync.WaitGroup
	errs := make([]error, len(jobs))
	for i, j := range jobs {
		wg.Add(1)
		sem <- struct{}{}
		go func(i int, j job) {
			defer wg.Done()
			defer func() { <-sem }()
			n := nRuns[j.id]
			if n == 0 {
				n = 400
			}
			params := fmt.Sprintf("digest=%d", n)
			if pc := props[j.id]; pc != nil && pc.Quick.Params != "" {
				params += "," + pc.Quick.Params
			}
			cmd := exec.Command(s.Bin, j.id, "run", "-seed", fmt.Sprint(j.seed), "-from", "0", "-to", fmt.Sprint(n), "-shrink", "0", "-params", params, "-out", j.out)
			cmd.Env = append(os.Environ(), fmt.Sprintf("GOMAXPROCS=%d", j.gmp))
			if out, err := cmd.CombinedOutput(); err != nil {
				errs[i] = fmt.Errorf("%s seed %d: %v\n%s", j.id, j.seed, err, string(out))
			}
		}(i, j)
	}
	wg.Wait()
	for _, e := range errs {
		if e != nil {
			fmt.Fprintln(os.Stderr, "RUN-TROUBLE:", e)
			return 2
		}
	}
	bad := 0
	ref := map[string]map[string]string{}
	for _, j := range jobs {
		b, err := os.ReadFile(j.out)
		if err != nil {
			fmt.Fprintln(os.Stderr, err)
			return 2
		}
		var r result
		json.Unmarshal(b, &r)
		key := fmt.Sprintf("%s/%d", j.id, j.seed)
		if ref[key] == nil {
			ref[key] = r.Digests
			continue
		}
		var diff []string
		for k, v := range ref[key] {
			if r.Digests[k] != v {
				diff = append(diff, k)
			}
		}
		if len(diff) > 0 || len(r.Digests) != len(ref[key]) {
			sort.Strings(diff)
			fmt.Printf("NONDETERMINISM %s seed=%d GOMAXPROCS=%d rep=%d: runs %v differ\n", j.id, j.seed, j.gmp, j.rep, diff)
			bad++
		}
	}
	fmt.Printf("selftest determinism: %d processes (GOMAXPROCS 1/4/16 x 2 seeds x 2 repeats x %d properties), %d mismatching\n", len(jobs), len(ids), bad)
	if bad > 0 {
		return 1
	}
	return 0
}

func selftestBaseline(s *scratch) int {
	b, err := os.ReadFile("/root/.vp/BASELINE.json")
	var want []string
	if err == nil {
		var bl struct {
			StablePass []string `json:"stable_pass"`
		}
		json.Unmarshal(b, &bl)
		want = bl.StablePass
	}
	cmd := exec.Command("go", "test", "-json", "-vet=off", "-count=1", "./pkg/...", "./stdlib/json", "./stdlib/file")
	cmd.Dir = s.Src
	cmd.Env = goEnv()
	out, _ := cmd.StdoutPipe()
	cmd.Stderr = nil
	if err := cmd.Start(); err != nil {
		fmt.Fprintln(os.Stderr, err)
		return 2
	}
	pass := map[string]bool{}
	fail := map[string]bool{}
	sc := bufio.NewScanner(out)
	sc.Buffer(make([]byte, 1<<20), 1<<24)
	for sc.Scan() {
		var ev struct {
			Action, Package, Test string
		}
		if json.Unmarshal(sc.Bytes(), &ev) != nil || ev.Test == "" {
			continue
		}
		name := ev.Package + "::" + ev.Test
		switch ev.Action {
		case "pass":
			pass[name] = true
		case "fail":
			fail[name] = true
		}
	}
	cmd.Wait()
	missing := []string{}
	for _, w := range want {
		if !pass[w] {
			missing = append(missing, w)
		}
	}
	extraFail := []string{}
	for f := range fail {
		if !strings.Contains(f, "/pkg/server::") {
			extraFail = append(extraFail, f)
		}
	}
	sort.Strings(missing)
	sort.Strings(extraFail)
	fmt.Printf("selftest baseline: %d tests passed on the transformed tree; baseline wants %d, missing %d, failing outside pkg/server %d\n", len(pass), len(want), len(missing), len(extraFail))
	for _, m := range missing {
		fmt.Println("  MISSING", m)
	}
	for _, m := range extraFail {
		fmt.Println("  FAIL", m)
	}
	if len(missing) > 0 || len(extraFail) > 0 {
		return 1
	}
	return 0
}
