package main

import (
	"fmt"
	"os"
)

func cmdSelftest(args []string) int {
	fmt.Fprintln(os.Stderr, "selftest: not built yet")
	return 2
}
