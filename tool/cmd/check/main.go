// check is the driver of every registered check:
//
//	check <ID> [--tier quick|thorough] [--seed N]
//	check replay <file>
//	check selftest determinism|baseline [...]
//
// It copies /repo's working tree to a scratch directory, applies the simbuild
// transformation there, builds the harness binary against the transformed tree, runs it in
// several OS processes, merges their results, classifies violations against
// known_findings.json, writes evidence/<ID>.json, removes the scratch directory.
// Exit 0 = held, 1 = VIOLATION, 2 = build/transform/watchdog trouble.
package main

import (
	"crypto/sha256"
	"encoding/hex"
	"encoding/json"
	"flag"
	"fmt"
	"io"
	"os"
	"os/exec"
	gopath "path"
	"path/filepath"
	"sort"
	"strconv"
	"strings"
	"sync"
	"time"

	"veriftool/simbuild"
)

const verifDir = "/verif"

// repoDir is always /repo for the registered checks; a development build may point it at a
// clean worktree with -ldflags "-X main.repoDir=…" (no run-time override exists on purpose).
var repoDir = "/repo"

type tierCfg struct {
	Runs   int
	Procs  int
	Params string
	Seeds  int // number of base seeds (thorough)
	WallS  int // watchdog per process, seconds
}

type propCfg struct {
	ID         string
	Harness    string
	Quick      tierCfg
	Thorough   tierCfg
	Rule       string
	Assume     []string
	Components map[string]string
}

var props = map[string]*propCfg{}

func goEnv() []string {
	env := os.Environ()
	env = append(env, "GOFLAGS=-mod=mod", "GOPROXY=off", "GOSUMDB=off", "GOTOOLCHAIN=local", "CGO_ENABLED=0")
	return env
}

func main() {
	if len(os.Args) < 2 {
		usage()
	}
	switch os.Args[1] {
	case "replay":
		os.Exit(cmdReplay(os.Args[2:]))
	case "selftest":
		os.Exit(cmdSelftest(os.Args[2:]))
	case "build":
		os.Exit(cmdBuildOnly(os.Args[2:]))
	default:
		os.Exit(cmdCheck(os.Args[1], os.Args[2:]))
	}
}

func usage() {
	fmt.Fprintln(os.Stderr, "usage: check <ID> [--tier quick|thorough] [--seed N] | check replay <file> | check selftest ...")
	os.Exit(2)
}

// ---------------------------------------------------------------- scratch build

type scratch struct {
	Dir      string
	Src      string
	Bin      string
	Report   *simbuild.Report
	TreeHash string
	BuildS   float64
}

func (s *scratch) cleanup() {
	if s != nil && s.Dir != "" {
		os.RemoveAll(s.Dir)
	}
}

func treeHash(dir string) string {
	h := sha256.New()
	filepath.Walk(dir, func(p string, info os.FileInfo, err error) error {
		if err != nil {
			return nil
		}
		if info.IsDir() {
			if info.Name() == ".git" {
				return filepath.SkipDir
			}
			return nil
		}
		if !strings.HasSuffix(p, ".go") && !strings.HasSuffix(p, ".mod") {
			return nil
		}
		rel, _ := filepath.Rel(dir, p)
		b, _ := os.ReadFile(p)
		fmt.Fprintf(h, "%s %d\n", rel, len(b))
		h.Write(b)
		return nil
	})
	return hex.EncodeToString(h.Sum(nil)[:8])
}

func buildScratch() (*scratch, error) {
	t0 := time.Now()
	base := os.Getenv("VERIF_SCRATCH")
	if base == "" {
		base = os.TempDir()
	}
	dir, err := os.MkdirTemp(base, "znverif-")
	if err != nil {
		return nil, err
	}
	s := &scratch{Dir: dir, Src: filepath.Join(dir, "src"), Bin: filepath.Join(dir, "h")}
	if err := simbuild.CopyTree(repoDir, s.Src, nil); err != nil {
		return s, fmt.Errorf("copy /repo: %w", err)
	}
	s.TreeHash = treeHash(s.Src)
	// simulator runtime, shims and harness become part of the scratch module
	for _, sub := range []string{"zsim", "shim", "hlib", "harness"} {
		if err := simbuild.CopyTree(filepath.Join(verifDir, "sim", sub), filepath.Join(s.Src, "znverif", sub), nil); err != nil {
			return s, fmt.Errorf("copy sim/%s: %w", sub, err)
		}
	}
	// pkg/server has named-pipe helpers for darwin/windows only; give the scratch tree the
	// darwin (POSIX mkfifo) implementation under a GOOS-neutral file name.
	np := filepath.Join(s.Src, "pkg/server/name_pipe_darwin.go")
	if b, err := os.ReadFile(np); err == nil {
		if _, err2 := os.Stat(filepath.Join(s.Src, "pkg/server/name_pipe_linux.go")); err2 != nil {
			os.WriteFile(filepath.Join(s.Src, "pkg/server/name_pipe_sim.go"), b, 0o644)
		}
	}
	opt := simbuild.Options{
		Dir:      s.Src,
		Patterns: []string{"./pkg/...", "./stdlib/json", "./stdlib/file"},
		Env:      goEnv(),
		Shims:    shimPlan,
		T3:       map[string]bool{"pkg/server": true},
		Yield:    yieldPlan,
		T4:       t4Plan,
	}
	rep, err := simbuild.Transform(opt)
	if err != nil {
		return s, fmt.Errorf("simbuild: %w", err)
	}
	s.Report = rep
	cmd := exec.Command("go", "build", "-trimpath", "-o", s.Bin, "./znverif/harness/h")
	cmd.Dir = s.Src
	cmd.Env = goEnv()
	out, err := cmd.CombinedOutput()
	if err != nil {
		return s, fmt.Errorf("go build harness: %v\n%s", err, string(out))
	}
	s.BuildS = time.Since(t0).Seconds()
	return s, nil
}

var shimPlan = map[string][]string{
	"pkg/io":        {"os", "time", "math/rand", "sync"},
	"pkg/exec":      {"os", "math/rand", "time", "sync"},
	"pkg/runtime":   {"os", "math/rand", "time", "sync"},
	"pkg/value":     {"os", "math/rand", "time", "sync"},
	"pkg/common":    {"os", "math/rand", "time", "sync"},
	"stdlib/file":   {"os", "time", "math/rand", "sync"},
	"stdlib/json":   {"os", "time", "math/rand", "sync"},
	"pkg/syntax":    {"os", "time", "math/rand", "sync"},
	"pkg/syntax/zh": {"os", "time", "math/rand", "sync"},
	"pkg/error":     {"os", "time", "math/rand", "sync"},
	"pkg/server":    {"os", "os/exec", "net", "time", "log", "os/signal", "syscall", "math/rand", "sync"},
}

var yieldPlan = map[string]bool{"pkg/server": true, "pkg/exec": true, "pkg/runtime": true, "pkg/io": true}
var t4Plan = map[string]bool{"pkg/exec": true, "pkg/runtime": true, "pkg/value": true, "pkg/common": true, "pkg/server": true, "pkg/io": true, "stdlib/json": true, "stdlib/file": true}

// ---------------------------------------------------------------- check

type violation struct {
	Property   string            `json:"property"`
	Signature  string            `json:"signature"`
	Detail     string            `json:"detail"`
	Seed       uint64            `json:"seed"`
	Run        int               `json:"run"`
	Params     map[string]string `json:"params,omitempty"`
	Decisions  []uint32          `json:"decisions"`
	OrigLen    int               `json:"orig_decisions"`
	Scenario   json.RawMessage   `json:"scenario"`
	Trace      []string          `json:"trace"`
	ShrinkRuns int               `json:"shrink_runs"`
	Count      int               `json:"count"`
	TreeHash   string            `json:"tree_hash,omitempty"`
}

type result struct {
	Property   string            `json:"property"`
	Runs       int               `json:"runs"`
	Evals      int               `json:"evals"`
	NonTrivial int               `json:"nontrivial"`
	Keys       []string          `json:"keys"`
	Violations []*violation      `json:"violations"`
	Faults     map[string]int    `json:"faults"`
	Probes     map[string]int    `json:"probes"`
	Note       map[string]int    `json:"note"`
	Samples    []json.RawMessage `json:"samples"`
	SimSeconds float64           `json:"sim_seconds"`
	WallS      float64           `json:"wall_s"`
	Troubles   []string          `json:"-"`
	Digests    map[string]string `json:"digests"`
}

type finding struct {
	Property  string `json:"property"`
	Signature string `json:"signature"`
	What      string `json:"what"`
	Status    string `json:"status"` // known | fixed
	Commit    string `json:"commit,omitempty"`
}

func loadFindings() []finding {
	b, err := os.ReadFile(filepath.Join(verifDir, "known_findings.json"))
	if err != nil {
		return nil
	}
	var f struct {
		Findings []finding `json:"findings"`
	}
	if err := json.Unmarshal(b, &f); err != nil {
		fmt.Fprintln(os.Stderr, "known_findings.json:", err)
		os.Exit(2)
	}
	return f.Findings
}

func cmdCheck(id string, args []string) int {
	fs := flag.NewFlagSet("check", flag.ExitOnError)
	tier := fs.String("tier", envOr("VERIF_TIER", "quick"), "quick|thorough")
	seedS := fs.String("seed", envOr("VERIF_SEED", "1"), "base seed")
	runsOverride := fs.Int("runs", 0, "override number of runs")
	procsOverride := fs.Int("procs", 0, "override number of processes")
	paramsOverride := fs.String("params", "", "extra harness params")
	fs.Parse(args)
	pc, ok := props[id]
	if !ok {
		fmt.Fprintf(os.Stderr, "unknown property %s\n", id)
		return 2
	}
	seed, err := strconv.ParseUint(*seedS, 10, 64)
	if err != nil {
		// any string is accepted as a seed
		h := sha256.Sum256([]byte(*seedS))
		seed = uint64(h[0])<<24 | uint64(h[1])<<16 | uint64(h[2])<<8 | uint64(h[3])
	}
	tc := pc.Quick
	if *tier == "thorough" {
		tc = pc.Thorough
	}
	if *runsOverride > 0 {
		tc.Runs = *runsOverride
	}
	if *procsOverride > 0 {
		tc.Procs = *procsOverride
	}
	if *paramsOverride != "" {
		if tc.Params != "" {
			tc.Params += ","
		}
		tc.Params += *paramsOverride
	}
	if tc.Seeds < 1 {
		tc.Seeds = 1
	}
	t0 := time.Now()
	s, err := buildScratch()
	defer s.cleanup()
	if err != nil {
		fmt.Fprintf(os.Stderr, "BUILD-TROUBLE property=%s: %v\n", id, err)
		return 2
	}
	replayDir := filepath.Join(verifDir, "replays", id)
	os.MkdirAll(replayDir, 0o755)
	merged, err := runProcs(s, pc, tc, *tier, seed, replayDir)
	if err != nil {
		fmt.Fprintf(os.Stderr, "RUN-TROUBLE property=%s: %v\n", id, err)
		return 2
	}
	for _, tr := range merged.Troubles {
		fmt.Fprintf(os.Stderr, "RUN-TROUBLE property=%s: %s\n", id, tr)
	}
	// classify
	findings := loadFindings()
	known := map[string]finding{}
	for _, f := range findings {
		if f.Property == id && f.Status == "known" {
			known[f.Signature] = f
		}
	}
	exit := 0
	sort.Slice(merged.Violations, func(i, j int) bool { return merged.Violations[i].Signature < merged.Violations[j].Signature })
	nviol := 0
	var knownSeen []string
	for _, v := range merged.Violations {
		v.TreeHash = s.TreeHash
		path := writeReplay(replayDir, v)
		f, ok := known[v.Signature]
		if !ok {
			// a known entry may use * for the part of a signature that names HOW the same defect was
			// reached (e.g. which polluter template redefined the constructor)
			for pat, kf := range known {
				if strings.Contains(pat, "*") {
					if m, _ := gopath.Match(pat, v.Signature); m {
						f, ok = kf, true
						break
					}
				}
			}
		}
		if ok {
			fmt.Printf("KNOWN-FINDING: property=%s %s — %s (seen %d×, replay=%s)\n", id, v.Signature, f.What, v.Count, path)
			knownSeen = append(knownSeen, v.Signature)
			continue
		}
		nviol++
		exit = 1
		fmt.Printf("VIOLATION property=%s replay=%s\n  signature: %s\n  %s\n", id, path, v.Signature, strings.ReplaceAll(v.Detail, "\n", "\n  "))
	}
	wall := time.Since(t0).Seconds()
	if err := writeEvidence(pc, *tier, seed, tc, s, merged, nviol, knownSeen, wall); err != nil {
		fmt.Fprintf(os.Stderr, "EVIDENCE-TROUBLE: %v\n", err)
		return 2
	}
	fmt.Printf("check %s tier=%s seed=%d: runs=%d evals=%d distinct=%d violations=%d known=%d build=%.1fs wall=%.1fs\n",
		id, *tier, seed, merged.Runs, merged.Evals, len(merged.Keys), nviol, len(knownSeen), s.BuildS, wall)
	if len(merged.Troubles) > 0 && exit == 0 {
		// part of the batch did not run to its end and nothing was found in the rest: that is
		// trouble, not a pass. (Violations found by the processes that did finish are reported
		// as such: they are real and replayable whatever happened to the other processes.)
		return 2
	}
	return exit
}

func envOr(k, d string) string {
	if v := os.Getenv(k); v != "" {
		return v
	}
	return d
}

func runProcs(s *scratch, pc *propCfg, tc tierCfg, tier string, seed uint64, replayDir string) (*result, error) {
	merged := &result{Property: pc.ID, Faults: map[string]int{}, Probes: map[string]int{}, Note: map[string]int{}, Digests: map[string]string{}}
	keys := map[string]bool{}
	bySig := map[string]*violation{}
	type job struct {
		seed     uint64
		from, to int
		out      string
	}
	var jobs []job
	procs := tc.Procs
	if procs < 1 {
		procs = 1
	}
	for si := 0; si < tc.Seeds; si++ {
		sd := seed + uint64(si)*1000003
		per := (tc.Runs + procs - 1) / procs
		for p := 0; p < procs; p++ {
			from, to := p*per, (p+1)*per
			if to > tc.Runs {
				to = tc.Runs
			}
			if from >= to {
				continue
			}
			jobs = append(jobs, job{sd, from, to, filepath.Join(s.Dir, fmt.Sprintf("res-%d-%d.json", si, p))})
		}
	}
	sem := make(chan struct{}, 16)
	var wg sync.WaitGroup
	errs := make([]error, len(jobs))
	for i, j := range jobs {
		wg.Add(1)
		sem <- struct{}{}
		go func(i int, j job) {
			defer wg.Done()
			defer func() { <-sem }()
			args := []string{pc.ID, "run", "-seed", fmt.Sprint(j.seed), "-from", fmt.Sprint(j.from), "-to", fmt.Sprint(j.to), "-tier", tier, "-out", j.out}
			if tc.Params != "" {
				args = append(args, "-params", tc.Params)
			}
			cmd := exec.Command(s.Bin, args...)
			cmd.Dir = s.Dir
			cmd.Env = append(os.Environ(), "GOMAXPROCS=2")
			var stderr strings.Builder
			cmd.Stderr = &stderr
			cmd.Stdout = io.Discard
			wall := tc.WallS
			if wall <= 0 {
				wall = 1800
			}
			done := make(chan error, 1)
			if err := cmd.Start(); err != nil {
				errs[i] = err
				return
			}
			go func() { done <- cmd.Wait() }()
			select {
			case err := <-done:
				if err != nil {
					errs[i] = fmt.Errorf("harness process %d failed: %v\n%s", i, err, tailStr(stderr.String(), 3000))
				}
			case <-time.After(time.Duration(wall) * time.Second):
				cmd.Process.Kill()
				errs[i] = fmt.Errorf("harness process %d: watchdog after %ds", i, wall)
			}
		}(i, j)
	}
	wg.Wait()
	// a harness process that died or hung contributes nothing; what the others found stands
	failed := 0
	for i, e := range errs {
		if e != nil {
			failed++
			merged.Troubles = append(merged.Troubles, e.Error())
			jobs[i].out = ""
		}
	}
	if failed == len(jobs) {
		return nil, fmt.Errorf("every harness process failed; first: %s", merged.Troubles[0])
	}
	for _, j := range jobs {
		if j.out == "" {
			continue
		}
		b, err := os.ReadFile(j.out)
		if err != nil {
			return nil, err
		}
		var r result
		if err := json.Unmarshal(b, &r); err != nil {
			return nil, fmt.Errorf("result %s: %w", j.out, err)
		}
		merged.Runs += r.Runs
		merged.Evals += r.Evals
		merged.NonTrivial += r.NonTrivial
		merged.SimSeconds += r.SimSeconds
		if r.WallS > merged.WallS {
			merged.WallS = r.WallS
		}
		for _, k := range r.Keys {
			keys[k] = true
		}
		for k, v := range r.Faults {
			merged.Faults[k] += v
		}
		for k, v := range r.Probes {
			merged.Probes[k] += v
		}
		for k, v := range r.Note {
			merged.Note[k] += v
		}
		for k, v := range r.Digests {
			merged.Digests[k] = v
		}
		if len(merged.Samples) < 4 {
			merged.Samples = append(merged.Samples, r.Samples...)
		}
		for _, v := range r.Violations {
			if old, ok := bySig[v.Signature]; ok {
				old.Count += v.Count
				if len(v.Decisions) < len(old.Decisions) {
					v.Count = old.Count
					bySig[v.Signature] = v
				}
			} else {
				bySig[v.Signature] = v
			}
		}
	}
	for k := range keys {
		merged.Keys = append(merged.Keys, k)
	}
	for _, v := range bySig {
		merged.Violations = append(merged.Violations, v)
	}
	return merged, nil
}

func tailStr(s string, n int) string {
	if len(s) > n {
		return s[len(s)-n:]
	}
	return s
}

func writeReplay(dir string, v *violation) string {
	h := sha256.Sum256([]byte(v.Signature))
	p := filepath.Join(dir, fmt.Sprintf("%s-%s.json", v.Property, hex.EncodeToString(h[:6])))
	b, _ := json.MarshalIndent(v, "", " ")
	os.WriteFile(p, b, 0o644)
	return p
}

func writeEvidence(pc *propCfg, tier string, seed uint64, tc tierCfg, s *scratch, m *result, nviol int, knownSeen []string, wall float64) error {
	samples := []interface{}{}
	for _, sm := range m.Samples {
		var x interface{}
		json.Unmarshal(sm, &x)
		samples = append(samples, x)
		if len(samples) >= 3 {
			break
		}
	}
	if len(samples) == 0 {
		samples = append(samples, "no non-trivial sample recorded")
	}
	runsPerHour := 0.0
	if wall > 0 {
		runsPerHour = float64(m.Runs) / wall * 3600
	}
	zeroProbes := []string{}
	for k, v := range m.Probes {
		if v == 0 {
			zeroProbes = append(zeroProbes, k)
		}
	}
	sort.Strings(zeroProbes)
	cov := map[string]interface{}{
		"evaluations":         m.Evals,
		"distinct_nontrivial": len(m.Keys),
		"rule":                pc.Rule,
		"samples":             samples,
		"simulated_runs":      m.Runs,
		"nontrivial_runs":     m.NonTrivial,
		"base_seeds":          tc.Seeds,
		"processes":           tc.Procs,
		"runs_per_hour":       runsPerHour,
		"seeds_per_hour":      runsPerHour, // every run has its own seed: Mix(base seed, run index)
		"seed_derivation":     "run i of base seed s uses tape seed splitmix(s ^ (i+1)*0xd6e8feb86659fd93); base seeds = VERIF_SEED + k*1000003",
		"simulated_seconds":   m.SimSeconds,
		"faults_fired":        m.Faults,
		"reach_probes":        m.Probes,
		"probes_never_hit":    zeroProbes,
		"counters":            m.Note,
		"known_findings_seen": knownSeen,
		"components":          pc.Components,
		"tree_hash":           s.TreeHash,
		"transform":           map[string]interface{}{"map_range_sites": s.Report.MapSites, "files_rewritten": s.Report.Files, "shimmed_files": s.Report.ShimFiles, "go_sites": s.Report.GoSites, "chan_sites": s.Report.ChanSites, "yield_sites": s.Report.YieldSites, "access_sites": s.Report.AccessSites},
		"build_s":             s.BuildS,
		"exhaustive":          false,
	}
	if len(m.Troubles) > 0 {
		cov["harness_processes_that_died_or_hung"] = len(m.Troubles) // their share of the batch did not run
	}
	ev := map[string]interface{}{
		"property_id": pc.ID,
		"tier":        tier,
		"seed":        seed,
		"level":       "exploration",
		"coverage":    cov,
		"assumptions": pc.Assume,
		"wall_s":      wall,
		"violations":  nviol,
	}
	b, err := json.MarshalIndent(ev, "", " ")
	if err != nil {
		return err
	}
	os.MkdirAll(filepath.Join(verifDir, "evidence"), 0o755)
	return os.WriteFile(filepath.Join(verifDir, "evidence", pc.ID+".json"), b, 0o644)
}

// ---------------------------------------------------------------- replay

func cmdReplay(args []string) int {
	if len(args) < 1 {
		usage()
	}
	b, err := os.ReadFile(args[0])
	if err != nil {
		fmt.Fprintln(os.Stderr, err)
		return 2
	}
	var v violation
	if err := json.Unmarshal(b, &v); err != nil {
		fmt.Fprintln(os.Stderr, err)
		return 2
	}
	s, err := buildScratch()
	defer s.cleanup()
	if err != nil {
		fmt.Fprintf(os.Stderr, "BUILD-TROUBLE: %v\n", err)
		return 2
	}
	cmd := exec.Command(s.Bin, v.Property, "replay", "-file", args[0], "-v")
	cmd.Stdout = os.Stdout
	cmd.Stderr = os.Stderr
	err = cmd.Run()
	if ee, ok := err.(*exec.ExitError); ok {
		return ee.ExitCode()
	}
	if err != nil {
		return 2
	}
	return 0
}

func cmdBuildOnly(args []string) int {
	s, err := buildScratch()
	if err != nil {
		fmt.Fprintf(os.Stderr, "BUILD-TROUBLE: %v\n", err)
		s.cleanup()
		return 2
	}
	fmt.Println(s.Dir)
	b, _ := json.MarshalIndent(s.Report, "", " ")
	fmt.Println(string(b))
	return 0
}
