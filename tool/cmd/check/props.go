package main

func init() {
	props["C11"] = &propCfg{
		ID: "C11", Harness: "maporder",
		Quick:    tierCfg{Runs: 4000, Procs: 8, Params: "orders=6", WallS: 600},
		Thorough: tierCfg{Runs: 60000, Procs: 16, Params: "orders=24", Seeds: 3, WallS: 3000},
		Rule: "one evaluation = one execution of a generated scenario (Zn script; main+modules on the simulated disk; HTTP request through ZnHttpHandler; ExecExpressionInputText) under one map-iteration-order schedule; each scenario runs once with the canonical order and K more times with tape-chosen orders (sorted/reverse/rotation/permutation per range execution) and all observable outcomes must be identical. distinct_nontrivial = distinct scenarios (hash of their text) that reached at least one range-over-map site with >= 2 keys.",
		Assume: []string{
			"T1 rewrites every `range` over a map in pkg/... and stdlib/{json,file} of the scratch copy; maps iterated inside dependencies (encoding/json sorts keys itself) are outside the seam",
			"orders chosen by the simulator are a superset of what Go's runtime can produce",
			"addresses/time/process state do not influence outcomes within one process (covered by the cross-process digest comparison in `check selftest determinism`)",
		},
		Components: map[string]string{
			"pkg/exec, pkg/runtime, pkg/value, pkg/common, pkg/syntax, pkg/io, stdlib/json, stdlib/file, pkg/server(http_handler)": "real code (transformed copy)",
			"file system": "simulated disk (zsim.Disk)",
			"net/http server loop": "stub: requests are handed to ZnHttpHandler.ServeHTTP directly",
		},
	}
}
