package main

func init() {
	props["C11"] = &propCfg{
		ID: "C11", Harness: "maporder",
		Quick:    tierCfg{Runs: 4000, Procs: 8, Params: "orders=6", WallS: 600},
		Thorough: tierCfg{Runs: 80000, Procs: 16, Params: "orders=24", Seeds: 3, WallS: 3300},
		Rule: "one evaluation = one execution of a generated scenario (Zn script; main+modules on the simulated disk with libraries imported before, between and after modules and from inside modules; module programs that list a directory of 2-2600 files, whose entries the simulated file system hands out in a tape-drawn directory order (site fs.directory-order; open directory handles page through them); HTTP request with up to 1500 header or query names through ZnHttpHandler; ExecExpressionInputText) under one map-iteration-order schedule; each scenario runs once with the canonical order and K more times with tape-chosen orders (sorted/reverse/rotation/permutation per range execution) and all observable outcomes must be identical; values include linked lists of dictionaries 3-200 levels deep (depths around 64) that differ in one node, compared with 为 / 不为 / 包含 / 寻找 in statements of their own. distinct_nontrivial = distinct scenarios (hash of their text) that reached at least one range-over-map site with >= 2 keys.",
		Assume: []string{
			"T1 rewrites every `range` over a map in pkg/... and stdlib/{json,file} of the scratch copy; maps iterated inside dependencies (encoding/json sorts keys itself) are outside the seam",
			"orders chosen by the simulator are a superset of what Go's runtime can produce",
			"addresses/time/process state do not influence outcomes within one process (covered by the cross-process digest comparison in `check selftest determinism`)",
		},
		Components: map[string]string{
			"pkg/exec, pkg/runtime, pkg/value, pkg/common, pkg/syntax, pkg/io, stdlib/json, stdlib/file, pkg/server(http_handler)": "real code (transformed copy)",
			"file system": "simulated disk (zsim.Disk)",
			"net/http server loop": "stub: requests are handed to ZnHttpHandler.ServeHTTP directly",
		},
	}
	props["C17"] = &propCfg{
		ID: "C17", Harness: "disk",
		Quick:    tierCfg{Runs: 40000, Procs: 8, WallS: 600},
		Thorough: tierCfg{Runs: 1000000, Procs: 16, Seeds: 3, WallS: 3300},
		Rule: "one evaluation = one byte string (valid UTF-8 built from 1/2/3/4-byte characters and the legitimate U+FFFD with lengths around 0, 1, 4095-4097, 8191-8193, 13000 and an alignment shift; zero/one/two BOMs; or one of 8 corruption classes incl. GBK text at a drawn position) put on the simulated disk and decoded through FileStream.ReadAll, FileStream.Read(n) called until end of input with a caller-chosen block size n (1-8, 13, 64, 1000, 4095-4097, 8192, 65536), ByteStream.ReadAll or end to end through LoadFile(...).Execute of an n-line program whose line i displays i; the file under test is the main file or (one LoadFile run in three) a module imported by a one-line main file; a third of the valid LoadFile runs then REPLACE the file by one of the same size and modification time (one label changed, or one byte damaged) and load it again in the same process; sizes reach 300 KB with boundaries at 32/64 KiB; in profile `stream` every read may deliver only 1-12 bytes (a fifth of the runs) and the file may also be a pipe (stat size 0) or a synthetic file whose stat size (0, 1, 4096) says nothing about its content; profile `regular` = full reads, no faults; profile `concurrent` = after 0-2 earlier decodes in the same process (half of them rejected files) 2-3 tasks decode DIFFERENT files at the same time under the seeded scheduler (switch points: return of every simulated read, every function entry of pkg/io, pkg/exec, pkg/runtime; sync.Pool modelled as a per-world LIFO stack), each result compared with the reference decoder and with the same file decoded alone; profile `stream` = the length of every read (full/shorter/1 byte/just short of full) and one EIO are tape decisions. Oracle: utf8.Valid ? runes minus one leading BOM : error; injected EIO => error, never a prefix; fewer displayed lines without error = silently truncated program. distinct_nontrivial = distinct (profile, target, file class, corruption, EIO planned, size class) tuples.",
		Assume: []string{
			"T2 routes os.Open/os.Stat of pkg/io and pkg/exec to the simulated disk; the simulated reads return any length a POSIX read may return (>=1 byte, or 0+EOF at the end)",
			"the reference decoder is unicode/utf8.Valid + []rune conversion",
		},
		Components: map[string]string{
			"pkg/io (FileStream, ByteStream, readRune), pkg/exec (LoadFile finder, Execute), parser, evaluator": "real code (transformed copy)",
			"file system / read(2)": "simulated disk (zsim.Disk) with tape-chosen read lengths and EIO",
		},
	}
	props["C10"] = &propCfg{
		ID: "C10", Harness: "disk",
		Quick:    tierCfg{Runs: 60000, Procs: 8, WallS: 600, Params: "enum=1"},
		Thorough: tierCfg{Runs: 10000000, Procs: 16, Seeds: 3, WallS: 3300, Params: "enum=1"},
		Rule: "NARROW CLAIM (I/O surface only). The first 9,072 runs of every seed ENUMERATE one-operation programs: (读取文件|写入文件|读取目录) x 7 paths x initial content (absent, UTF-8, GBK bytes) x use of the result (bound+displayed, displayed directly, returned by 输出) x with/without 拦截异常 x (no fault | each of the 11 disk fault kinds) forced at its 1st or 2nd eligible operation. The remaining runs: one evaluation = one generated scenario on the simulated disk: (a) a program issuing 1-5 of 读取文件/写入文件/读取目录 on a small path set (files, a directory, missing paths, missing parent), each result bound+displayed, displayed directly, or returned by 输出, with or without a 拦截异常 handler; (b) LoadFile(...).Execute of a project with nested-directory imports, with a module missing / replaced by a directory / parent replaced by a file / not UTF-8 and, in most runs, one more import whose NAME is degenerate (empty, separators only, trailing/leading/doubled separator, file name instead of module name, path-like); (c) a request through ZnPlaygroundHandler / ZnHttpHandler (35 bodies: programs, input-variable texts naming undefined things / using 其 outside an object / declaring / importing, JSON of other shapes, non-JSON, empty; 15 client-chosen Content-Type values; announced lengths from 0 to 2^63-1) whose body reader may fail after k bytes. Fault kinds (random subset per run, a third of the runs fault-free): stat EACCES, open EACCES/EMFILE/ENOENT-after-stat, read EIO, short reads, write ENOSPC/EROFS/torn, readdir EIO, client abort mid-body. Oracle: no Go panic, no nil element, fault-free runs match a path->bytes reference model exactly (display, result, final disk), faulted runs may fail but never show data that was never written, every failure reaches 拦截异常 when there is one, a faulted load never runs on silently. distinct_nontrivial = distinct (kind, enabled faults, handler, operation sequence) tuples.",
		Assume: []string{
			"only the I/O-facing built-ins, source loading and the handlers' body reading are covered; the ~90 pure members x argument tuples of C10 are pure functions of their input and are NOT covered",
			"os shim fidelity: errors are *fs.PathError with the errno a POSIX kernel would give",
		},
		Components: map[string]string{
			"stdlib/file, pkg/exec, pkg/io, pkg/value, pkg/server handlers": "real code (transformed copy)",
			"file system": "simulated disk with per-operation fault points",
			"HTTP server and client": "stub: handler invoked directly with a body reader the simulator controls",
		},
	}
	props["C15"] = &propCfg{
		ID: "C15", Harness: "modfs",
		Quick:    tierCfg{Runs: 40000, Procs: 8, WallS: 600, Params: "enum=3"},
		Thorough: tierCfg{Runs: 6000000, Procs: 16, Seeds: 3, WallS: 3300, Params: "enum=4"},
		Rule: "the first runs of every seed ENUMERATE all import digraphs (self-imports included) among 1, 2 and 3 modules (530 graphs; quick) resp. 1-4 modules (66,066 graphs; thorough), everything else about those scenarios (main's imports, selective lists, call edges, damage, faults) drawn from the tape; the remaining runs: one evaluation = one random import digraph on <= 5 modules + main (acyclic by default, any edge incl. self-imports and cycles in a quarter of the runs; nested names 库-丁 -> 库/丁.zn, 库-深-戊 -> 库/深/戊.zn; all-or-selected import lists; a module NAMED 甲.zn (file 甲.zn.zn) next to 甲, nested modules spelled with slashes (库/丁) by all their importers in a third of the scenarios, and imports of an existing module under <name>.zn (must be reported missing); library imports 《@JSON》 from several modules; missing module / missing library; a module missing, replaced by a directory or not UTF-8) written to the simulated disk and run through the real LoadFile finder; module bodies display a marker and define functions/types that call siblings of their own module or imported functions (locals may shadow sibling names); half of the types have an explicit constructor that calls a sibling function; one module in seven is BARE (only its 导入 lines, no statement, no export); main calls what it imported, may assign to an imported name or call a non-imported one. A quarter of the runs also inject stat/open/read faults; import-all order is a tape decision. Oracle: executable loader model (DFS, loading/loaded sets): marker trace (each body once, before its importer's statements), call results, result, or the first error class (60 missing, 63 cycle, 64 library, 44 assign, 42 not imported); a faulted load may fail with any error but may not complete with a different trace. distinct_nontrivial = distinct canonical graph shapes (imports with list sizes, call edges, damage, enabled faults).",
		Assume: []string{
			"a second import of the same module inside ONE importer is not generated (the implementation rejects the duplicate declaration with error 43, which the property does not rule on)",
			"redeclaring an imported name with 令 in the importer's body is shadowing, not generated",
		},
		Components: map[string]string{
			"pkg/exec (evalImportStmt, execAnotherModule, LoadFile finder), pkg/runtime (ModuleGraph, VM, Scope), pkg/io, parser, evaluator, stdlib/json": "real code (transformed copy)",
			"file system": "simulated disk with fault points",
		},
	}
	props["C09"] = &propCfg{
		ID: "C09", Harness: "exc",
		Quick:    tierCfg{Runs: 40000, Procs: 8, WallS: 600},
		Thorough: tierCfg{Runs: 1500000, Procs: 16, Seeds: 3, WallS: 3300},
		Rule: "one evaluation = one generated program (1-3 modules on the simulated disk: functions, a class with constructor and methods, a custom exception class per module (in a third of the programs named alike up to letter case: HttpError / HTTPError / httpError), bounded 每当/遍历 loops, branches, 拦截 blocks of class 异常 / 探针异常 / a custom class on any body, handlers that themselves raise, CRLF line ends, comments, multi-line comments and multi-line text literals — also with empty lines inside and a break before the closing quote — before statements) executed by the real interpreter through LoadFile with the probe library 《@探针》 registered through SetExternalLibs; the simulator draws which dynamic probe invocation fails and how (exception signal, custom-class exception object, plain Go error, RuntimeError); generated 抛出 (often under a constant condition), 1 / 0, a failing built-in (转换数值) and two failing file operations on the simulated disk (读取文件 of a directory: opens, read fails; of a missing path) are part of the workload; functions are also called through aliases (令别 = 函数), uncaught messages contain format verbs and braces, one body in twelve holds a declaration that fails while it is being declared (a local class with a failing property initialiser, a constructor for something that is not a class), once per program a recursion started from the main body is 40-2600 frames deep, 抛出 of non-types and six more runtime faults of ordinary expressions are raise kinds, and a quarter of the single-module programs are files without any 导入 whose top-level statements come first (line 1 is a statement) and whose declarations follow. Oracle: a reference interpreter over the generator's AST (frames, locals per frame, handler matching by class name, 其 binding, unwinding) replays the same fault plan and predicts the display trace (incl. follow-up probes of caller locals, 其值 and call results after every call) and the result or the uncaught message. distinct_nontrivial = distinct (first uncaught raise kind | handled count | module count | fault kind) tuples; a run is non-trivial when something was raised.",
		Assume: []string{
			"reference semantics = the property's text: every raise kind is an exception of class 异常 unless it is a custom-class object; handlers match by exact class name; a handler without 输出 yields 空; handlers do not protect themselves",
			"programs avoid constructs whose semantics other properties dispute (no 输出 inside loops, explicit 输出 at the end of every function body)",
		},
		Components: map[string]string{
			"pkg/exec, pkg/runtime, pkg/value, pkg/error, parser, pkg/io": "real code (transformed copy)",
			"library functions": "real registration seam (runtime.Library via SetExternalLibs); the probe function is the simulator's fault point",
			"file system": "simulated disk",
		},
	}
	props["C18"] = &propCfg{
		ID: "C18", Harness: "exc",
		Quick:    tierCfg{Runs: 40000, Procs: 8, WallS: 600},
		Thorough: tierCfg{Runs: 1500000, Procs: 16, Seeds: 3, WallS: 3300},
		Rule: "PARTIAL CLAIM (runtime half only). one evaluation = one generated program (1-3 modules on the simulated disk: functions, a class with constructor and methods, a custom exception class per module (in a third of the programs named alike up to letter case: HttpError / HTTPError / httpError), bounded 每当/遍历 loops, branches, 拦截 blocks of class 异常 / 探针异常 / a custom class on any body, handlers that themselves raise, CRLF line ends, comments, multi-line comments and multi-line text literals — also with empty lines inside and a break before the closing quote — before statements) executed by the real interpreter through LoadFile with the probe library 《@探针》 registered through SetExternalLibs; the simulator draws which dynamic probe invocation fails and how (exception signal, custom-class exception object, plain Go error, RuntimeError); generated 抛出 (often under a constant condition), 1 / 0, a failing built-in (转换数值) and two failing file operations on the simulated disk (读取文件 of a directory: opens, read fails; of a missing path) are part of the workload; functions are also called through aliases (令别 = 函数), uncaught messages contain format verbs and braces, one body in twelve holds a declaration that fails while it is being declared (a local class with a failing property initialiser, a constructor for something that is not a class), once per program a recursion started from the main body is 40-2600 frames deep, 抛出 of non-types and six more runtime faults of ordinary expressions are raise kinds, and a quarter of the single-module programs are files without any 导入 whose top-level statements come first (line 1 is a statement) and whose declarations follow. Oracle: for runs whose behaviour agrees with the reference interpreter and that end in an uncaught fault, the (module, line) entries parsed from exec.DisplayError must equal the frames active at the fault in the reference interpreter (module and physical call-site line per frame, innermost statement line; library/native frames ignored; handler frame separate or merged; outermost-first or innermost-first). distinct_nontrivial as for C09; a run is non-trivial when it ended in an uncaught fault.",
		Assume: []string{
			"the syntax-error half of C18 (caret column) is a pure function of the text and is NOT covered",
			"physical line numbers are assigned by the harness renderer (comments, multi-line literals, CRLF included)",
		},
		Components: map[string]string{
			"pkg/exec (error_printer, eval), pkg/runtime (callframe, vm), lexer line table, parser": "real code (transformed copy)",
			"file system": "simulated disk",
		},
	}
	props["C20"] = &propCfg{
		ID: "C20", Harness: "prefork",
		Quick:    tierCfg{Runs: 4000, Procs: 8, WallS: 900},
		Thorough: tierCfg{Runs: 300000, Procs: 16, Seeds: 3, WallS: 3300},
		Rule: "one evaluation = one simulated life of the whole prefork server: a master process running the real StartMaster/spawnProcess/readNamedPipe/maintainChildState, real workers (StartWorker, writeProcState, RespWriter, net/http.ReadRequest) started through the simulated exec, the real FIFO helper code, on a simulated kernel (processes, FIFO with POSIX open/EOF semantics, listening socket with shared accept queue, connections, clock); per run InitProcs 1-4, MaxProcs Init-6, Timeout 1-3 s, 1-6 clients x 1-4 requests with gaps 0-2 s (one run in eight: MaxProcs 11-26, so that full spawn batches of ten fit, with 12-25 clients sending long back-to-back requests), request scripts instant / 0.1-0.9 s / hang / timeout +-2 ms / handler panic; a seeded scheduler picks the next task at every step (bias to keep the current task drawn per run). Fault kinds, each enabled in a random subset of runs and bounded per run: worker SIGKILL at a drawn time, right after accept, during start-up, all workers at once; hung request; near-timeout request; slow start-up 0-2 s; client abort before/mid request; client stalling for ever after half a request, i.e. inside the headers (at most max-procs-1 of them); uploads: complete headers whose body arrives 0.1-0.6 x timeout later (must be served) or never with the connection left open (not together with the stalling clients); responses of 300 KB over connections whose ends hold 64 KB and serialise their writers, to clients that read them or that stop reading after 16 bytes; clients that send surplus bytes after a well-formed request (a trailing CRLF, a pipelined second request, stray text); handler panic; master stalled (none of its tasks scheduled) for 0.1-2 s; the master's own environment holding stale ZINC_EXEC_TIMEOUT / ZINC_PIPE_ID / ZINC_PREFORK_CHILD values (a quarter of the runs). A run in which more than 600 workers are started is stopped and reported (I2: the pool never settles). After the active phase a quiet phase (no new requests or faults, fair scheduling) of Timeout x (requests+1) + 60 simulated seconds. Oracle over the kernel's ground truth: I1 live workers <= max-procs after every step; I2 live >= init-procs at the end of the quiet phase; I3 each token handled at most once, own response, no overlapping requests in one pid, healthy requests answered; I4 a hung worker, a worker that accepted an upload whose body never arrives and a worker parked in a write to a client that stopped reading is gone by start+timeout+5 s and healthy requests elsewhere are undisturbed; I5 the master does not exit unless signalled. distinct_nontrivial = distinct abstract states (live workers / busy handlers / accept backlog) plus distinct interleavings (hash of the context-switch sequence).",
		Assume: []string{
			"kernel model deviations: unbounded accept backlog, FIFO frames written whole (5 bytes <= PIPE_BUF), pids never reused, fork/FIFO-creation failure and master SIGKILL are not injected (outside the property's fault list)",
			"the request handler is a stub whose service time the simulator scripts (simulated processes share one address space, the real playground handler would share interpreter globals that real processes do not share)",
			"liveness bounds are loose on purpose: any pacing of respawns up to a minute passes; a quiet phase cut short by the step cap leaves I2/I3-liveness unchecked (counted in the evidence)",
		},
		Components: map[string]string{
			"pkg/server pm_server.go (master and worker), name_pipe_darwin.go (as name_pipe_sim.go), util.go; net/http request parsing, bufio": "real code (transformed copy: go/chan/select rewritten to the cooperative scheduler, imports substituted by shims)",
			"kernel: processes, exec/wait/kill/exit, FIFO, TCP listener/connections, signals, clock/timers": "simulated (zsim.Kernel, zsim scheduler)",
			"request handler, HTTP clients, cobra flag parsing": "stub",
		},
	}
	props["C16"] = &propCfg{
		ID: "C16", Harness: "iso",
		Quick:    tierCfg{Runs: 4000, Procs: 8, WallS: 900, Params: "shrinkcap=40"},
		Thorough: tierCfg{Runs: 100000, Procs: 16, Seeds: 2, WallS: 3500, Params: "shrinkcap=40,enum=1"},
		Rule: "thorough tier: the first runs of every seed ENUMERATE every single polluter of the catalogue (every mutating method name x every predefined value x 5 argument shapes; constructor redefinition and property assignment for every predefined value and library class; every mutator on every property/copy/item of a fresh library object) against every victim kind (about 9,500 histories of length one). Otherwise: one evaluation = (two thirds of the runs, part A) a history P1;...;Pn;Q, n <= 4, played in ONE freshly exec'ed OS process (the long-lived REPL/server situation; each execution has its own simulated disk; the Interpreter object is reused or replaced per execution by a tape draw) with polluters Pi drawn from a catalogue generated from the actual global table (every mutating method name x every predefined value with 0-2 arguments, 如何新建X？ for every predefined value and for a registered library class, property assignment on every predefined value, declarations of global names and of names victims use, a program that dies inside nested calls, imports of every library, a file project whose module has the victim's module name but other content, a failing library call, a JSON document of 60 B / 1.1 KB / 5 KB parsed, bound without a copy and patched in place, a redefined constructor that declares things and is used, an object of the real class HTTP响应 (library @HTTP, three body kinds) whose 头部 and 状态码 are changed in place, one request to a ZnHttpHandler whose entry program fills defaults into the parts of its own request object (four request shapes), the result of each of 32 built-in method calls bound with 得到 and changed in place by a type-appropriate mutator — singly and as one batch program) and a victim Q from a fixed battery (reads of every predefined value, arithmetic on 数值, throw/catch, uncaught throw, JSON round trip, a file project importing a module, local names, a script importing a module, 新建异常, a library class, the byte-identical JSON document parsed and read, one request to a ZnHttpHandler whose entry program displays the parts of its request, fresh HTTP响应 objects displayed; one victim in four is one of the polluters run AGAIN, two in four are chosen in relation to a polluter of the history); reference = Q alone in another freshly exec'ed process; (one third, part B) 2-4 simulated callers entering one ZnPlaygroundHandler / ZnHttpHandler with one shared interpreter under the seeded scheduler, pre-empted at every function entry of pkg/exec, pkg/runtime, pkg/server; oracles: every response equals the response of the same request served alone, and the lockset oracle over the T4 access records (package-level variables, fields of Zn struct types reached through selector chains, and maps by identity; same location, two caller tasks, at least one write, no common lock) reports nothing. distinct_nontrivial = distinct (polluter kind, victim) pairs and histories plus distinct interleavings of part B.",
		Assume: []string{
			"Go's race detector cannot be used under a controlled scheduler (gate hand-offs are happens-before edges); the T4 + lockset oracle replaces it and sees only accesses written as x.f / pkgvar in Zn's own packages, reached through a pure chain of variables, field selections and dereferences (identity = address of the field)",
			"the caller tasks of part B never synchronise with each other, so any two conflicting accesses are concurrent",
			"a divergence is minimised at scenario level (drop every polluter it does not need) before its signature is formed",
		},
		Components: map[string]string{
			"pkg/exec, pkg/runtime, pkg/value, pkg/common, stdlib/json, stdlib/file, pkg/server handlers (ZnPlaygroundHandler, ZnHttpHandler)": "real code (transformed copy)",
			"process restart": "real: every history and every reference runs in a newly exec'ed copy of the harness binary",
			"net/http serve loop (goroutine per connection)": "stub: N simulator tasks call ServeHTTP on one handler",
			"file system": "simulated disk",
		},
	}
}
