package zsim

import (
	"fmt"
	"reflect"
)

// Channel operations of transformed code (T3). Outside a scheduled task they are the real
// operations. Under the scheduler an unbuffered channel is a rendezvous inside the
// simulator (the real channel is only an identity key); a buffered channel uses its real
// buffer through operations that cannot block because only one task runs at a time.

type chanState struct {
	keep reflect.Value // keeps the real channel alive: its address is this state's identity, and the
	// garbage collector would otherwise recycle it while queue entries of frozen tasks remain
	sendq  []*sender
	recvq  []*Task
	closed bool
}

type sender struct {
	t    *Task
	v    reflect.Value
	done bool
}

func (s *sched) cs(ch reflect.Value) *chanState {
	k := ch.Pointer()
	st := s.chans[k]
	if st == nil {
		st = &chanState{keep: ch}
		s.chans[k] = st
	}
	return st
}

func underSched() (*World, *Task) {
	w := W
	if w == nil || w.sched == nil || w.sched.cur == nil {
		return nil, nil
	}
	return w, w.sched.cur
}

func Send[T any](ch chan<- T, v T) {
	w, t := underSched()
	if t == nil {
		ch <- v
		return
	}
	if t.dying {
		return
	}
	rv := reflect.ValueOf(ch)
	if cap(ch) > 0 {
		Block("chan.send", func() bool { return len(ch) < cap(ch) })
		ch <- v
		Yield("chan.sent")
		return
	}
	st := w.sched.cs(rv)
	if st.closed {
		panic("send on closed channel")
	}
	// a receiver parked in Recv takes the value directly
	if len(st.recvq) > 0 {
		r := st.recvq[0]
		st.recvq = st.recvq[1:]
		r.recvVal, r.recvOK, r.gotVal = reflect.ValueOf(v), true, true
		Yield("chan.handoff")
		return
	}
	sd := &sender{t: t, v: reflect.ValueOf(v)}
	st.sendq = append(st.sendq, sd)
	Block("chan.send", func() bool { return sd.done })
}

func recvAny(ch reflect.Value, site string) (reflect.Value, bool) {
	w, t := underSched()
	if t == nil {
		return ch.Recv()
	}
	if t.dying {
		return reflect.Zero(ch.Type().Elem()), false
	}
	if ch.Cap() > 0 {
		st := w.sched.cs(ch)
		Block(site, func() bool { return ch.Len() > 0 || st.closed })
		if ch.Len() > 0 {
			v, ok := ch.TryRecv()
			return v, ok
		}
		return reflect.Zero(ch.Type().Elem()), false
	}
	st := w.sched.cs(ch)
	if len(st.sendq) > 0 {
		sd := st.sendq[0]
		st.sendq = st.sendq[1:]
		sd.done = true
		return sd.v, true
	}
	if st.closed {
		return reflect.Zero(ch.Type().Elem()), false
	}
	t.gotVal = false
	st.recvq = append(st.recvq, t)
	Block(site, func() bool { return t.gotVal || st.closed })
	if t.gotVal {
		t.gotVal = false
		return t.recvVal, t.recvOK
	}
	// closed while waiting
	for i, r := range st.recvq {
		if r == t {
			st.recvq = append(st.recvq[:i], st.recvq[i+1:]...)
			break
		}
	}
	return reflect.Zero(ch.Type().Elem()), false
}

func Recv[T any](ch <-chan T) T {
	if _, t := underSched(); t == nil {
		return <-ch
	}
	v, _ := recvAny(reflect.ValueOf(ch), "chan.recv")
	if !v.IsValid() {
		var zero T
		return zero
	}
	return v.Interface().(T)
}

func Recv2[T any](ch <-chan T) (T, bool) {
	if _, t := underSched(); t == nil {
		v, ok := <-ch
		return v, ok
	}
	v, ok := recvAny(reflect.ValueOf(ch), "chan.recv")
	if !v.IsValid() || !ok {
		var zero T
		return zero, false
	}
	return v.Interface().(T), true
}

func Close[T any](ch chan T) {
	w, t := underSched()
	if t == nil {
		close(ch)
		return
	}
	if t.dying {
		return
	}
	st := w.sched.cs(reflect.ValueOf(ch))
	st.closed = true
	if cap(ch) > 0 {
		close(ch)
	}
	Yield("chan.close")
}

// Case is one communication clause of a rewritten select.
type Case struct {
	ch   reflect.Value
	send bool
	v    reflect.Value
}

func CaseRecv[T any](ch <-chan T) Case { return Case{ch: reflect.ValueOf(ch)} }
func CaseSend[T any](ch chan<- T, v T) Case {
	return Case{ch: reflect.ValueOf(ch), send: true, v: reflect.ValueOf(v)}
}

func (c Case) readyNow(s *sched) bool {
	if c.ch.IsNil() {
		return false
	}
	st := s.cs(c.ch)
	if c.send {
		if c.ch.Cap() > 0 {
			return c.ch.Len() < c.ch.Cap()
		}
		return len(st.recvq) > 0
	}
	if c.ch.Cap() > 0 {
		return c.ch.Len() > 0 || st.closed
	}
	return len(st.sendq) > 0 || st.closed
}

// Select parks until at least one case can proceed and returns the index the tape chooses
// among the ready ones (Go's uniform random choice becomes a recorded decision). The
// operation itself is performed by the Send/Recv the rewritten arm starts with, which
// completes without blocking because nothing else runs in between. -1 = default.
func Select(hasDefault bool, cases ...Case) int {
	w, t := underSched()
	if t == nil {
		rc := make([]reflect.SelectCase, 0, len(cases)+1)
		for _, c := range cases {
			if c.send {
				rc = append(rc, reflect.SelectCase{Dir: reflect.SelectSend, Chan: c.ch, Send: c.v})
			} else {
				rc = append(rc, reflect.SelectCase{Dir: reflect.SelectRecv, Chan: c.ch})
			}
		}
		// outside the simulator the arm re-executes the operation; this path is only
		// reached by code that is never run outside a world (pkg/server's loops)
		panic("zsim.Select outside a simulated world")
	}
	if t.dying {
		return -1
	}
	s := w.sched
	ready := func() []int {
		var r []int
		for i, c := range cases {
			if c.readyNow(s) {
				r = append(r, i)
			}
		}
		return r
	}
	r := ready()
	if len(r) == 0 {
		if hasDefault {
			return -1
		}
		Block("select", func() bool { return len(ready()) > 0 })
		r = ready()
	}
	if w.SchedLog {
		desc := ""
		for i, c := range cases {
			st := s.cs(c.ch)
			desc += fmt.Sprintf(" [%d ptr=%x cap=%d len=%d sendq=%d recvq=%d closed=%v]", i, c.ch.Pointer(), c.ch.Cap(), c.ch.Len(), len(st.sendq), len(st.recvq), st.closed)
		}
		w.Logf("select task=%d ready=%v%s", t.ID, r, desc)
	}
	if len(r) == 1 {
		return r[0]
	}
	return r[w.T.Draw(len(r))]
}
