package zsim

import (
	"container/heap"
	"fmt"
	"reflect"
	"runtime"
	"sort"
	"time"
)

// The cooperative scheduler. Tasks are real goroutines, but exactly one is runnable at any
// instant: each parks on its private gate; the driver loop (Run) picks the next task from
// the sorted runnable set with a tape draw, opens its gate and waits until the task hands
// control back (at a Yield, a blocking shim call, a channel operation, or its exit). Go's
// own scheduler therefore decides nothing and results do not depend on GOMAXPROCS.

type taskState int

const (
	tsRunnable taskState = iota
	tsBlocked
	tsDone
	tsFrozen // its process exited or was killed: parked for ever, never unwound during the run
)

type Task struct {
	ID    int
	Name  string
	Proc  *Proc
	gate  chan struct{}
	state taskState
	ready func() bool
	dying bool
	site  string
	// rendezvous slots
	recvVal    reflect.Value
	recvOK     bool
	gotVal     bool
	sent       bool
	Panic      interface{}
	PanicStack string
}

type timer struct {
	at   time.Duration
	seq  uint64
	fn   func()
	dead bool
}

type timerHeap []*timer

func (h timerHeap) Len() int { return len(h) }
func (h timerHeap) Less(i, j int) bool {
	if h[i].at != h[j].at {
		return h[i].at < h[j].at
	}
	return h[i].seq < h[j].seq
}
func (h timerHeap) Swap(i, j int)       { h[i], h[j] = h[j], h[i] }
func (h *timerHeap) Push(x interface{}) { *h = append(*h, x.(*timer)) }
func (h *timerHeap) Pop() interface{} {
	old := *h
	n := len(old)
	x := old[n-1]
	*h = old[:n-1]
	return x
}

type sched struct {
	w        *World
	tasks    []*Task
	cur      *Task
	back     chan struct{}
	now      time.Duration
	timers   timerHeap
	tseq     uint64
	Steps    int
	Switches int
	chans    map[uintptr]*chanState
	ilHash   uint64 // running hash of the context-switch sequence (interleaving identity)
	KeepBias int    // out of 8: probability weight of keeping the current task when it is runnable
	Fair     bool   // quiet phase: round-robin, no draws
	rr       int
	curProc  *Proc
}

// StartScheduler equips the world with a scheduler (and a kernel if k is true).
func (w *World) StartScheduler() {
	w.sched = &sched{w: w, back: make(chan struct{}), chans: map[uintptr]*chanState{}, KeepBias: 6}
}

// StopScheduler tears the tasks down and returns the world to plain sequential execution.
func (w *World) StopScheduler() {
	if w.sched != nil {
		w.sched.teardown()
		w.sched = nil
	}
}

func (w *World) Now() time.Duration {
	if w.sched == nil {
		return 0
	}
	return w.sched.now
}

func (w *World) Steps() int           { return w.sched.Steps }
func (w *World) Interleaving() uint64 { return w.sched.ilHash }
func (w *World) SetFair(f bool)       { w.sched.Fair = f }
func (w *World) SetKeepBias(b int)    { w.sched.KeepBias = b }

// Active reports whether transformed code is currently running under the scheduler.
func Active() bool { return W != nil && W.sched != nil && W.sched.cur != nil }

func curTask() *Task {
	if W == nil || W.sched == nil {
		return nil
	}
	return W.sched.cur
}

// CurrentProc returns the simulated process of the running task (nil outside).
func CurrentProc() *Proc {
	if t := curTask(); t != nil {
		return t.Proc
	}
	return nil
}

// Spawn creates a task in process p. It becomes runnable immediately.
func (w *World) Spawn(p *Proc, name string, fn func()) *Task {
	s := w.sched
	t := &Task{ID: len(s.tasks) + 1, Name: name, Proc: p, gate: make(chan struct{})}
	s.tasks = append(s.tasks, t)
	if p != nil {
		p.tasks = append(p.tasks, t)
	}
	go func() {
		<-t.gate
		defer func() {
			if r := recover(); r != nil {
				t.Panic = r
				buf := make([]byte, 4096)
				t.PanicStack = string(buf[:runtime.Stack(buf, false)])
			}
			dying := t.dying
			t.state = tsDone
			if !dying && t.Panic != nil && t.Proc != nil && W == w {
				// an unrecovered panic kills the whole process with status 2, as in Go
				w.Logf("PANIC in task %s (pid %d): %v", t.Name, t.Proc.Pid, t.Panic)
				w.K.exitProc(t.Proc, 2, false)
			}
			s.back <- struct{}{}
		}()
		if t.dying {
			return
		}
		fn()
	}()
	return t
}

// Go is what a `go` statement is rewritten to.
func Go(site string, fn func()) {
	w := W
	if w == nil || w.sched == nil || w.sched.cur == nil {
		go fn()
		return
	}
	cur := w.sched.cur
	t := w.Spawn(cur.Proc, site, fn)
	w.Logf("go %s -> task %d (pid %d)", site, t.ID, pidOf(cur.Proc))
	Yield("go:" + site)
}

func pidOf(p *Proc) int {
	if p == nil {
		return 0
	}
	return p.Pid
}

// park hands control back to the driver and waits to be scheduled again.
func (s *sched) park(t *Task) {
	s.back <- struct{}{}
	<-t.gate
	if t.dying {
		runtime.Goexit()
	}
}

// Yield is a pre-emption point.
// DepthLimit bounds the Go call depth a world may reach outside the scheduler. A changed
// tree can recurse without end (an import cycle that is no longer detected, an evaluator that
// keeps calling itself); Go turns that into an unrecoverable stack overflow which would take
// the whole harness process down. Every 4096th function entry (of the packages that carry
// Yield) the depth of the stack is measured; beyond 150000 frames — five times what the
// deepest generated program, a 2600-frame Zn recursion, needs, and far below the 1 GB stack
// limit — the run ends in an ordinary, recoverable panic instead, which every harness
// reports as a crash of the host.
const DepthLimit = 150000

const BudgetPanic = "zsim: unbounded recursion: Go call depth beyond 150000 frames"

var depthBuf = make([]uintptr, DepthLimit)

func Yield(site string) {
	w := W
	if w == nil {
		return
	}
	if w.sched == nil {
		w.entries++
		if w.entries&4095 == 0 {
			n := runtime.Callers(0, depthBuf)
			if n == len(depthBuf) {
				panic(BudgetPanic)
			}
			for _, th := range []int{5000, 10000, 20000, 40000, 80000} {
				if n > th {
					w.Probes[fmt.Sprintf("go-call-depth>%d", th)]++
				}
			}
		}
		return
	}
	t := w.sched.cur
	if t == nil || t.dying {
		return
	}
	t.site = site
	w.sched.park(t)
}

// Block parks the current task until ready() holds. ready is evaluated by the driver.
func Block(site string, ready func() bool) {
	w := W
	t := w.sched.cur
	if t.dying {
		runtime.Goexit()
	}
	for !ready() {
		t.state = tsBlocked
		t.ready = ready
		t.site = site
		w.sched.park(t)
		t.state = tsRunnable
		t.ready = nil
	}
}

// Freeze parks the current task for ever (its process exited).
func (s *sched) freezeCurrent() {
	t := s.cur
	t.state = tsFrozen
	s.park(t) // only returns through Goexit at teardown
	runtime.Goexit()
}

// After schedules fn at now+d on the simulated clock (fn runs on the driver).
func (w *World) After(d time.Duration, fn func()) *timer {
	s := w.sched
	if d < 0 {
		d = 0
	}
	s.tseq++
	tm := &timer{at: s.now + d, seq: s.tseq, fn: fn}
	heap.Push(&s.timers, tm)
	return tm
}

// Sleep blocks the current task for d of simulated time.
func Sleep(d time.Duration) {
	w := W
	if w == nil || w.sched == nil || w.sched.cur == nil {
		time.Sleep(d)
		return
	}
	done := false
	w.After(d, func() { done = true })
	Block("sleep", func() bool { return done })
}

type RunResult struct {
	Reason string // quiescent | deadline | steps | invariant
	Err    error
}

// Run drives the world until simulated time `until`, maxSteps scheduler steps, quiescence
// (nothing runnable and no timer), or an invariant violation.
func (w *World) Run(until time.Duration, maxSteps int, invariant func() error) RunResult {
	s := w.sched
	for {
		if s.Steps >= maxSteps {
			return RunResult{Reason: "steps"}
		}
		for s.timers.Len() > 0 && s.timers[0].at <= s.now {
			tm := heap.Pop(&s.timers).(*timer)
			if !tm.dead {
				tm.fn()
			}
		}
		var runnable []*Task
		for _, t := range s.tasks {
			if t.Proc != nil && t.Proc.StalledUntil > s.now {
				continue // the whole process is stopped (SIGSTOP / long pause): none of its tasks runs
			}
			switch t.state {
			case tsRunnable:
				runnable = append(runnable, t)
			case tsBlocked:
				if t.ready != nil && t.ready() {
					runnable = append(runnable, t)
				}
			}
		}
		if len(runnable) == 0 {
			if s.timers.Len() == 0 {
				return RunResult{Reason: "quiescent"}
			}
			next := s.timers[0].at
			if next > until {
				s.now = until
				return RunResult{Reason: "deadline"}
			}
			s.now = next
			continue
		}
		if s.now >= until {
			return RunResult{Reason: "deadline"}
		}
		sort.Slice(runnable, func(i, j int) bool { return runnable[i].ID < runnable[j].ID })
		var pick *Task
		if s.Fair {
			s.rr++
			pick = runnable[s.rr%len(runnable)]
		} else {
			curIdx := -1
			for i, t := range runnable {
				if t == s.cur {
					curIdx = i
				}
			}
			if curIdx >= 0 && len(runnable) > 1 {
				// zero draw = keep running the current task
				if w.T.Draw(8) < s.KeepBias {
					pick = runnable[curIdx]
				}
			}
			if pick == nil {
				pick = runnable[w.T.Draw(len(runnable))]
			}
		}
		if w.SchedLog {
			ids := make([]int, len(runnable))
			for i, t := range runnable {
				ids[i] = t.ID
			}
			w.Logf("step %d pick=%d(%s) runnable=%v", s.Steps, pick.ID, pick.site, ids)
		}
		if pick != s.cur {
			s.Switches++
			s.ilHash = (s.ilHash ^ uint64(pick.ID)*0x9e3779b97f4a7c15 ^ hashStr(pick.site)) * 0x100000001b3
		}
		s.switchTo(pick)
		s.Steps++
		if invariant != nil {
			if err := invariant(); err != nil {
				return RunResult{Reason: "invariant", Err: err}
			}
		}
	}
}

func hashStr(s string) uint64 {
	var h uint64 = 14695981039346656037
	for i := 0; i < len(s); i++ {
		h = (h ^ uint64(s[i])) * 1099511628211
	}
	return h
}

func (s *sched) switchTo(t *Task) {
	s.cur = t
	if t.Proc != s.curProc {
		s.curProc = t.Proc
		if argsSwap != nil {
			if t.Proc != nil {
				argsSwap(t.Proc.Args)
			} else {
				argsSwap(realArgs)
			}
		}
	}
	t.state = tsRunnable
	t.gate <- struct{}{}
	<-s.back
	s.cur = nil
}

// teardown unwinds every parked goroutine, one at a time, so that no goroutine outlives
// its world. Deferred functions of Zn code run here; every shim is inert for a dying task.
func (s *sched) teardown() {
	for _, t := range s.tasks {
		if t.state == tsDone {
			continue
		}
		t.dying = true
		s.cur = t
		t.gate <- struct{}{}
		<-s.back
		s.cur = nil
	}
	if argsSwap != nil {
		argsSwap(realArgs)
	}
}

// Dying reports whether the current task is being unwound at teardown (shims must be inert).
func Dying() bool {
	t := curTask()
	return t != nil && t.dying
}

func (w *World) TaskDump() []string {
	var out []string
	for _, t := range w.sched.tasks {
		st := []string{"runnable", "blocked", "done", "frozen"}[t.state]
		out = append(out, fmt.Sprintf("task %d %s pid=%d %s at %s", t.ID, t.Name, pidOf(t.Proc), st, t.site))
	}
	return out
}
