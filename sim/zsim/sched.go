package zsim

import "time"

// placeholder – replaced by the real scheduler (see sched.go history)
type sched struct {
	now time.Duration
}

func (s *sched) teardown() {}
