// Package zsim is the deterministic simulator runtime that transformed Zn code and the
// harnesses call. Every decision a run makes (task choice, delay, fault yes/no, read
// length, map permutation, generated workload element) is one Draw on the choice tape.
package zsim

// splitmix64 – tiny, seedable, good enough for search; no global state anywhere.
type rng struct{ s uint64 }

func (r *rng) next() uint64 {
	r.s += 0x9e3779b97f4a7c15
	z := r.s
	z = (z ^ (z >> 30)) * 0xbf58476d1ce4e5b9
	z = (z ^ (z >> 27)) * 0x94d049bb133111eb
	return z ^ (z >> 31)
}

// Mix derives an independent stream seed from a base seed and an index.
func Mix(seed uint64, idx uint64) uint64 {
	r := rng{s: seed ^ (idx+1)*0xd6e8feb86659fd93}
	r.next()
	return r.next()
}

// Tape is the single source of choice of a run. In exploration the values come from the
// PRNG and are recorded; in replay they come from the recorded list. A replayed tape that
// is exhausted, or holds a value out of range for the draw at hand, yields 0, and 0 is by
// convention always "the default": keep running the current task, no fault, full read,
// sorted order. That convention is what makes tape-level shrinking meaningful.
type Tape struct {
	seed   uint64
	r      rng
	Rec    []uint32
	src    []uint32
	pos    int
	replay bool
	Limit  int // hard cap on draws (0 = none); past it every draw is 0
}

func NewTape(seed uint64) *Tape { return &Tape{seed: seed, r: rng{s: seed}} }

// TapeSpec describes how to rebuild a tape from its beginning in another process.
type TapeSpec struct {
	Replay bool     `json:"replay"`
	Src    []uint32 `json:"src,omitempty"`
	Seed   uint64   `json:"seed"`
}

func (t *Tape) Spec() TapeSpec { return TapeSpec{Replay: t.replay, Src: t.src, Seed: t.seed} }

// Adopt makes the tape's record equal to what another process consumed when it executed the
// same run from the beginning of the same tape.
func (t *Tape) Adopt(dec []uint32) {
	t.Rec = append([]uint32(nil), dec...)
	t.pos = len(dec)
}

func (s TapeSpec) Build() *Tape {
	if s.Replay {
		return ReplayTape(s.Src)
	}
	return NewTape(s.Seed)
}

func ReplayTape(dec []uint32) *Tape {
	cp := make([]uint32, len(dec))
	copy(cp, dec)
	return &Tape{src: cp, replay: true}
}

// Draw returns a value in [0,n). n<=1 consumes nothing.
func (t *Tape) Draw(n int) int {
	if n <= 1 {
		return 0
	}
	var v int
	if t.Limit > 0 && t.pos >= t.Limit {
		v = 0
	} else if t.replay {
		if t.pos < len(t.src) {
			v = int(t.src[t.pos])
			if v >= n {
				v = 0
			}
		}
	} else {
		v = int(t.r.next() % uint64(n))
	}
	t.Rec = append(t.Rec, uint32(v))
	t.pos++
	return v
}

// Chance is true with probability num/den; a zero draw is false ("no fault").
func (t *Tape) Chance(num, den int) bool {
	if num <= 0 {
		return false
	}
	return t.Draw(den) >= den-num
}

// Range draws an integer in [lo,hi]; zero draw = lo.
func (t *Tape) Range(lo, hi int) int {
	if hi <= lo {
		return lo
	}
	return lo + t.Draw(hi-lo+1)
}

// Pos is the number of draws made so far.
func (t *Tape) Pos() int { return t.pos }

// Decisions returns a copy of what was drawn so far.
func (t *Tape) Decisions() []uint32 {
	cp := make([]uint32, len(t.Rec))
	copy(cp, t.Rec)
	return cp
}
