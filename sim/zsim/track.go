package zsim

import (
	"fmt"
	"reflect"
	"sort"
)

// T4 access tracking + lockset race oracle. Go's -race is useless under a controlled
// scheduler (the gate hand-offs that serialise tasks are happens-before edges and hide every
// race), so transformed code reports reads and writes of package-level variables and of
// fields of Zn's own struct types here, keyed by (object address, field name). Two accesses
// of the same location by different caller tasks, at least one of them a write, with no
// lock in common, are a data race: the caller tasks of the iso harness never synchronise
// with each other, so any two such accesses are concurrent.

type accessRec struct {
	task  int
	write bool
	site  string
	locks string
	held  []uintptr
	epoch int         // number of hand-overs (Release) the task had performed before this access
	hb    map[int]int // task -> number of that task's epochs known to happen before this access
	hbver int
}

// relInfo: what a hand-over carries (an object put into a sync.Pool): who released it, in
// which epoch, and what that task itself knew to have happened before.
type relInfo struct {
	task  int
	epoch int
	hb    map[int]int
}

// NoObj is what Safe returns when the owner of a field cannot be reached (a nil link in the
// selector chain): such an access is not recorded.
type noObj struct{}

var NoObj = &noObj{}

// Safe evaluates the address of a field reached through a chain of selectors; a nil link
// (which the statement itself may guard against by short-circuit evaluation) yields NoObj.
func Safe(f func() interface{}) (r interface{}) {
	defer func() {
		if recover() != nil {
			r = NoObj
		}
	}()
	return f()
}

func commonLock(a, b []uintptr) bool {
	for _, x := range a {
		for _, y := range b {
			if x == y {
				return true
			}
		}
	}
	return false
}

type locKey struct {
	obj   uintptr
	field string
}

type tracker struct {
	locs map[locKey][]accessRec
	held map[int][]uintptr
	keep []interface{} // keeps tracked objects alive so addresses are not recycled
	n    int
	// happens-before through hand-overs: putting an object into a pool and getting it out
	// again orders everything the putter did before with everything the getter does after
	// (a lockset alone would call a correctly recycled object a race)
	epoch map[int]int
	hb    map[int]map[int]int
	hbver map[int]int
	rel   map[uintptr]relInfo
}

// Tracking is the cheap guard transformed code checks first.
var Tracking bool

func TrackBegin(w *World) {
	w.Ext["tracker"] = &tracker{locs: map[locKey][]accessRec{}, held: map[int][]uintptr{},
		epoch: map[int]int{}, hb: map[int]map[int]int{}, hbver: map[int]int{}, rel: map[uintptr]relInfo{}}
	Tracking = true
}

// PtrOf gives the identity of the object a field belongs to.
func PtrOf(p interface{}) uintptr {
	if p == nil {
		return 0
	}
	v := reflect.ValueOf(p)
	switch v.Kind() {
	case reflect.Ptr, reflect.Map, reflect.Chan, reflect.Func, reflect.UnsafePointer, reflect.Slice:
		if v.IsNil() {
			return 0
		}
		return v.Pointer()
	}
	return 0
}

// Access records a read or write of (obj, field) by the current task.
func Access(site string, write bool, obj interface{}, field string) {
	if !Tracking {
		return
	}
	w := W
	if w == nil || w.sched == nil || w.sched.cur == nil {
		return
	}
	tr, _ := w.Ext["tracker"].(*tracker)
	if tr == nil {
		return
	}
	t := w.sched.cur
	if t.dying {
		return
	}
	if obj == interface{}(NoObj) {
		return
	}
	k := locKey{PtrOf(obj), field}
	if obj != nil && k.obj == 0 {
		return // not an addressable identity (nil or value type)
	}
	locks := fmt.Sprint(tr.held[t.ID])
	for _, a := range tr.locs[k] {
		if a.task == t.ID && a.write == write && a.locks == locks && a.epoch == tr.epoch[t.ID] && a.hbver == tr.hbver[t.ID] {
			return
		}
	}
	if len(tr.locs[k]) == 0 && obj != nil {
		tr.keep = append(tr.keep, obj)
	}
	tr.locs[k] = append(tr.locs[k], accessRec{task: t.ID, write: write, site: site, locks: locks, held: append([]uintptr(nil), tr.held[t.ID]...),
		epoch: tr.epoch[t.ID], hb: tr.hb[t.ID], hbver: tr.hbver[t.ID]})
	tr.n++
}

func curTracker() (*tracker, *Task) {
	if !Tracking {
		return nil, nil
	}
	w, t := underSched()
	if t == nil {
		return nil, nil
	}
	tr, _ := w.Ext["tracker"].(*tracker)
	return tr, t
}

// Release: the current task hands object x over (sync.Pool.Put). Everything it did so far
// happens before whatever the task that later Acquires x does.
func Release(x interface{}) {
	tr, t := curTracker()
	if tr == nil {
		return
	}
	p := PtrOf(x)
	if p == 0 {
		return
	}
	if _, seen := tr.rel[p]; !seen {
		tr.keep = append(tr.keep, x)
	}
	tr.rel[p] = relInfo{task: t.ID, epoch: tr.epoch[t.ID], hb: tr.hb[t.ID]}
	tr.epoch[t.ID]++
}

// Acquire: the current task received x from a hand-over (sync.Pool.Get of a recycled object).
func Acquire(x interface{}) {
	tr, t := curTracker()
	if tr == nil {
		return
	}
	info, ok := tr.rel[PtrOf(x)]
	if !ok || info.task == t.ID {
		return
	}
	// copy on write: earlier records keep the map they were made with
	nh := map[int]int{}
	for k, v := range tr.hb[t.ID] {
		nh[k] = v
	}
	if nh[info.task] < info.epoch+1 {
		nh[info.task] = info.epoch + 1
	}
	for k, v := range info.hb {
		if k != t.ID && nh[k] < v {
			nh[k] = v
		}
	}
	tr.hb[t.ID] = nh
	tr.hbver[t.ID]++
}

// ordered: a happens before b through a chain of hand-overs
func ordered(a, b accessRec) bool { return b.hb[a.task] > a.epoch }

// Cooperative mutexes. Transformed code calls AwaitLock(&mu, "Lock"|"RLock") BEFORE the real
// mu.Lock()/RLock(), Lock(&mu) after it and Unlock(&mu) before the real unlock. Under the
// scheduler exactly one task runs at a time, so a task that finds the mutex taken (its holder
// was pre-empted inside the critical section) must wait INSIDE the simulator: blocking in the
// real Lock would put every goroutine of the process to sleep. The holders table lives in the
// world, whether or not access tracking is on.
type lockOwners struct {
	writer  map[uintptr]int         // mutex -> task holding it exclusively
	readers map[uintptr]map[int]int // mutex -> task -> read holds
	pending map[int]string          // task -> mode of the acquisition in progress
}

func owners(w *World) *lockOwners {
	lo, _ := w.Ext["lock-owners"].(*lockOwners)
	if lo == nil {
		lo = &lockOwners{writer: map[uintptr]int{}, readers: map[uintptr]map[int]int{}, pending: map[int]string{}}
		w.Ext["lock-owners"] = lo
	}
	return lo
}

func AwaitLock(mu interface{}, mode string) {
	w, t := underSched()
	if t == nil || t.dying {
		return
	}
	lo, p := owners(w), PtrOf(mu)
	free := func() bool {
		if wr, ok := lo.writer[p]; ok && wr != t.ID {
			return false
		}
		if mode == "Lock" {
			for r, n := range lo.readers[p] {
				if r != t.ID && n > 0 {
					return false
				}
			}
		}
		return true
	}
	if !free() {
		w.Probes["mutex-contended"]++
		Block("mutex:"+mode, free)
	}
	lo.pending[t.ID] = mode
}

func noteLocked(mu interface{}) {
	w, t := underSched()
	if t == nil {
		return
	}
	lo, p := owners(w), PtrOf(mu)
	if lo.pending[t.ID] == "RLock" {
		if lo.readers[p] == nil {
			lo.readers[p] = map[int]int{}
		}
		lo.readers[p][t.ID]++
	} else {
		lo.writer[p] = t.ID
	}
	delete(lo.pending, t.ID)
}

func noteUnlocked(mu interface{}) {
	w, t := underSched()
	if t == nil {
		return
	}
	lo, p := owners(w), PtrOf(mu)
	if wr, ok := lo.writer[p]; ok && wr == t.ID {
		delete(lo.writer, p)
	} else if lo.readers[p][t.ID] > 0 {
		lo.readers[p][t.ID]--
	} else {
		// unlocked by another task than the one that locked it (legal for sync.Mutex): release whatever is held
		delete(lo.writer, p)
	}
}

// Lock / Unlock maintain the lockset of the current task (called around real sync calls).
func Lock(mu interface{}) {
	noteLocked(mu)
	if !Tracking {
		return
	}
	if w, t := underSched(); t != nil {
		if tr, _ := w.Ext["tracker"].(*tracker); tr != nil {
			tr.held[t.ID] = append(tr.held[t.ID], PtrOf(mu))
		}
	}
}

func Unlock(mu interface{}) {
	noteUnlocked(mu)
	if !Tracking {
		return
	}
	if w, t := underSched(); t != nil {
		if tr, _ := w.Ext["tracker"].(*tracker); tr != nil {
			p := PtrOf(mu)
			h := tr.held[t.ID]
			for i := len(h) - 1; i >= 0; i-- {
				if h[i] == p {
					tr.held[t.ID] = append(h[:i], h[i+1:]...)
					break
				}
			}
		}
	}
}

// TrackEnd stops tracking and returns the races found, sorted.
func TrackEnd(w *World) []string {
	Tracking = false
	tr, _ := w.Ext["tracker"].(*tracker)
	if tr == nil {
		return nil
	}
	seen := map[string]bool{}
	var out []string
	for k, as := range tr.locs {
		for i := 0; i < len(as); i++ {
			for j := i + 1; j < len(as); j++ {
				a, b := as[i], as[j]
				if a.task == b.task || (!a.write && !b.write) {
					continue
				}
				if commonLock(a.held, b.held) || ordered(a, b) || ordered(b, a) {
					continue
				}
				if !a.write {
					a, b = b, a
				}
				kind := "read"
				if b.write {
					kind = "write"
				}
				msg := fmt.Sprintf("%s written at %s and %s at %s by different concurrent executions, no common lock", k.field, a.site, kind, b.site)
				if !seen[msg] {
					seen[msg] = true
					out = append(out, msg)
				}
			}
		}
	}
	sort.Strings(out)
	w.Probes["tracked-accesses"] += tr.n
	return out
}
