package zsim

import (
	"bytes"
	"fmt"
	"sort"
	"strings"
	"time"
)

// World is one simulated execution. Exactly one world is active per OS process at a
// time (parallelism is across OS processes). All state reachable from transformed code
// hangs off the package variable W.
type World struct {
	T *Tape

	// ---- map-order seam (T1)
	MapMode    int             // MapSorted (default) or MapTape
	MapOnly    map[string]bool // if non-nil: only these sites are permuted
	MapHits    map[string]int  // site -> calls with >= 2 keys
	MapPermute map[string]int  // site -> calls that got a non-sorted order

	// ---- statistics and trace
	Faults   map[string]int // fault kind -> times it actually fired
	Probes   map[string]int // reach probes
	entries  int            // function entries seen outside the scheduler (see EntryBudget)
	trace    []string
	TraceCap int
	seq      uint64

	// ---- display (what 显示 wrote)
	Out bytes.Buffer

	// ---- disk (profiles disk, modfs)
	Disk *Disk

	// ---- scheduler, clock and kernel (sched.go, kernel.go)
	sched *sched
	K     *Kernel

	SchedLog bool // log every scheduler step (debugging / determinism self-test)

	// free slot for harness-specific state reachable from shims
	Ext map[string]interface{}
}

const (
	MapSorted = 0
	MapTape   = 1
)

// W is the active world, nil when transformed code runs outside any simulation (then
// every seam behaves deterministically and the os/time/... shims delegate to the real
// packages, which is how the repository's own tests run on the transformed tree).
var W *World

func NewWorld(t *Tape) *World {
	return &World{
		T:          t,
		MapHits:    map[string]int{},
		MapPermute: map[string]int{},
		Faults:     map[string]int{},
		Probes:     map[string]int{},
		TraceCap:   4000,
		Ext:        map[string]interface{}{},
	}
}

// Enter makes w the active world; Leave deactivates it (and tears down its tasks).
func (w *World) Enter() { W = w }
func (w *World) Leave() {
	if w.sched != nil {
		w.sched.teardown()
	}
	if W == w {
		W = nil
	}
}

// Draw is the only source of choice.
func (w *World) Draw(n int) int { return w.T.Draw(n) }

// Logf appends to the event trace. It never draws and never reads a real clock.
func (w *World) Logf(format string, a ...interface{}) {
	w.seq++
	if len(w.trace) >= w.TraceCap {
		return
	}
	var now time.Duration
	if w.sched != nil {
		now = w.sched.now
	}
	w.trace = append(w.trace, fmt.Sprintf("#%d t=%s %s", w.seq, now, fmt.Sprintf(format, a...)))
}

func (w *World) Trace() []string { return w.trace }
func (w *World) Seq() uint64     { return w.seq }

// Fault records that a fault of the given kind actually fired.
func (w *World) Fault(kind string) { w.Faults[kind]++ }

// Probe records that a rare condition was reached.
func Probe(name string) {
	if W != nil {
		W.Probes[name]++
	}
}

// DisplayLines returns what the program displayed, split in lines.
func (w *World) DisplayLines() []string {
	s := w.Out.String()
	if s == "" {
		return nil
	}
	return strings.Split(strings.TrimSuffix(s, "\n"), "\n")
}

// ------------------------------------------------------------------ T1: map order seam

// MapKeys is what `for k, v := range m` over a map is rewritten to iterate. Outside a
// world, or in MapSorted mode, it returns the canonical sorted order, so transformed code
// is deterministic by default; in MapTape mode the order of each call is a tape decision.
func MapKeys[M ~map[K]V, K comparable, V any](site string, m M) []K {
	if Tracking && m != nil {
		Access(site, false, m, "map") // ranging over a map reads it
	}
	keys := make([]K, 0, len(m))
	for k := range m {
		keys = append(keys, k)
	}
	if len(keys) < 2 {
		return keys
	}
	sortKeys(keys)
	w := W
	if w == nil {
		return keys
	}
	w.MapHits[site]++
	if w.MapMode != MapTape {
		return keys
	}
	if w.MapOnly != nil && !w.MapOnly[site] {
		return keys
	}
	n := len(keys)
	switch w.T.Draw(4) {
	case 0: // sorted
		return keys
	case 1: // reverse
		for i, j := 0, n-1; i < j; i, j = i+1, j-1 {
			keys[i], keys[j] = keys[j], keys[i]
		}
	case 2: // rotation (what Go's runtime does to a small map: random start offset)
		k := w.T.Draw(n)
		if k == 0 {
			return keys
		}
		rot := make([]K, 0, n)
		rot = append(rot, keys[k:]...)
		rot = append(rot, keys[:k]...)
		keys = rot
	case 3: // arbitrary permutation, Fisher–Yates from the tape
		for i := n - 1; i > 0; i-- {
			j := i - w.T.Draw(i+1) // zero draw = no swap
			keys[i], keys[j] = keys[j], keys[i]
		}
	}
	w.MapPermute[site]++
	return keys
}

func sortKeys[K comparable](keys []K) {
	switch ks := any(keys).(type) {
	case []string:
		sort.Strings(ks)
	case []int:
		sort.Ints(ks)
	default:
		strs := make([]string, len(keys))
		idx := make([]int, len(keys))
		for i, k := range keys {
			strs[i] = fmt.Sprintf("%T:%v", k, k)
			idx[i] = i
		}
		sort.SliceStable(idx, func(a, b int) bool { return strs[idx[a]] < strs[idx[b]] })
		out := make([]K, len(keys))
		for i, j := range idx {
			out[i] = keys[j]
		}
		copy(keys, out)
	}
}

// Pair is one entry of a map iteration rewritten by T1.
type Pair[M ~map[K]V, K comparable, V any] struct {
	K K
	m M
}

// Get reads the live map, so an entry deleted during the iteration is skipped (ok=false)
// exactly as Go's own range would skip it.
func (p Pair[M, K, V]) Get() (V, bool) {
	v, ok := p.m[p.K]
	return v, ok
}

// MapPairs is MapKeys packaged for the rewritten range statement.
func MapPairs[M ~map[K]V, K comparable, V any](site string, m M) []Pair[M, K, V] {
	keys := MapKeys(site, m)
	out := make([]Pair[M, K, V], len(keys))
	for i, k := range keys {
		out[i] = Pair[M, K, V]{K: k, m: m}
	}
	return out
}
