package zsim

import "errors"

// placeholder kernel – replaced when the prefork profile is built
type Kernel struct{}

type FD struct{ Num int }

func (f *FD) Read(b []byte) (int, error)  { return 0, errors.New("nokernel") }
func (f *FD) Write(b []byte) (int, error) { return 0, errors.New("nokernel") }
func (f *FD) Close() error                { return nil }

func (k *Kernel) OpenFile(name string, flag int) (*FD, error) { return nil, errors.New("nokernel") }
func (k *Kernel) LookupFD(n int) *FD                          { return nil }
func (k *Kernel) Getenv(key string) string                    { return "" }
func (k *Kernel) Environ() []string                           { return nil }
func (k *Kernel) Getpid() int                                 { return 1 }
func (k *Kernel) Getppid() int                                { return 0 }
func (k *Kernel) Exit(code int)                               {}

var argsSwap func([]string)
var realArgs []string

func RegisterArgsSwap(f func([]string), real []string) { argsSwap = f; realArgs = real }
