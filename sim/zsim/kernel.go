package zsim

import (
	"fmt"
	"io"
	"io/fs"
	"sort"
	"strings"
	"syscall"
	"time"
)

// Kernel is the simulated operating system of the prefork profile: processes, FIFOs with
// POSIX semantics, one listening socket type with a shared accept queue, byte-stream
// connections, exec/wait, exit/kill. Deviations from a real kernel: the accept backlog is
// unbounded; FIFO writes are whole frames (<= PIPE_BUF, atomic); pids are never reused.

type Kernel struct {
	w         *World
	procs     map[int]*Proc
	nextPid   int
	fifos     map[string]*Fifo
	Programs  map[string]func() // argv[0] -> program main
	Listeners []*ListenSock
	Events    []KEvent // ground truth for the oracles
	connSeq   int
}

type KEvent struct {
	Seq  uint64
	At   time.Duration
	Kind string // spawn exit kill accept fatal
	Pid  int
	Info string
}

type Proc struct {
	Pid, PPid  int
	Args       []string
	Env        []string
	fds        map[int]*FD
	tasks      []*Task
	Exited     bool
	ExitCode   int
	Killed     bool
	StartAt    time.Duration
	ExitAt     time.Duration
	Name       string
	sigDeliver []func(sig string)
	conns      []*ConnEnd
	SlowStart  time.Duration
	Ext        map[string]interface{}
	// StalledUntil: until this simulated instant no task of the process is scheduled
	StalledUntil time.Duration
}

func NewKernel(w *World) *Kernel {
	k := &Kernel{w: w, procs: map[int]*Proc{}, nextPid: 100, fifos: map[string]*Fifo{}, Programs: map[string]func(){}}
	w.K = k
	return k
}

func (k *Kernel) event(kind string, pid int, info string) {
	k.w.Logf("K %s pid=%d %s", kind, pid, info)
	k.Events = append(k.Events, KEvent{Seq: k.w.seq, At: k.w.Now(), Kind: kind, Pid: pid, Info: info})
}

// NewProc creates a process (not yet running anything).
func (k *Kernel) NewProc(name string, ppid int, args, env []string) *Proc {
	k.nextPid++
	p := &Proc{Pid: k.nextPid, PPid: ppid, Args: args, Env: env, fds: map[int]*FD{}, Name: name, StartAt: k.w.Now(), Ext: map[string]interface{}{}}
	k.procs[p.Pid] = p
	return p
}

func (k *Kernel) Proc(pid int) *Proc { return k.procs[pid] }

// Procs returns all processes sorted by pid.
func (k *Kernel) Procs() []*Proc {
	var out []*Proc
	for _, p := range k.procs {
		out = append(out, p)
	}
	sort.Slice(out, func(i, j int) bool { return out[i].Pid < out[j].Pid })
	return out
}

func (k *Kernel) cur() *Proc {
	if t := curTask(); t != nil && t.Proc != nil {
		return t.Proc
	}
	return nil
}

func (k *Kernel) Getpid() int {
	if p := k.cur(); p != nil {
		return p.Pid
	}
	return 1
}

func (k *Kernel) Getppid() int {
	p := k.cur()
	if p == nil {
		return 0
	}
	if pp := k.procs[p.PPid]; pp == nil || pp.Exited {
		return 1 // re-parented to init
	}
	return p.PPid
}

func (k *Kernel) Getenv(key string) string {
	p := k.cur()
	if p == nil {
		return ""
	}
	val := ""
	for _, kv := range p.Env {
		if strings.HasPrefix(kv, key+"=") {
			val = kv[len(key)+1:]
		}
	}
	return val
}

func (k *Kernel) Setenv(key, value string) {
	if p := k.cur(); p != nil {
		p.Env = append(p.Env, key+"="+value)
	}
}

func (k *Kernel) Environ() []string {
	if p := k.cur(); p != nil {
		return append([]string(nil), p.Env...)
	}
	return nil
}

// ---------------------------------------------------------------- descriptors

type FD struct {
	Num    int
	proc   *Proc
	kind   string // fifo-r fifo-w listener conn
	fifo   *Fifo
	lsock  *ListenSock
	conn   *ConnEnd
	closed bool
}

func (p *Proc) addFD(f *FD, at int) *FD {
	n := at
	if n < 0 {
		n = 3
		for p.fds[n] != nil {
			n++
		}
	}
	f.Num, f.proc = n, p
	p.fds[n] = f
	return f
}

func (k *Kernel) LookupFD(n int) *FD {
	if p := k.cur(); p != nil {
		return p.fds[n]
	}
	return nil
}

func (f *FD) Kind() string          { return f.kind }
func (f *FD) Listener() *ListenSock { return f.lsock }
func (f *FD) Conn() *ConnEnd        { return f.conn }

func (f *FD) Read(b []byte) (int, error) {
	if Dying() {
		return 0, io.EOF
	}
	if f.closed {
		return 0, fs.ErrClosed
	}
	switch f.kind {
	case "fifo-r":
		return f.fifo.read(b)
	case "conn":
		return f.conn.Read(b)
	}
	return 0, syscall.EBADF
}

func (f *FD) Write(b []byte) (int, error) {
	if Dying() {
		return len(b), nil
	}
	if f.closed {
		return 0, fs.ErrClosed
	}
	switch f.kind {
	case "fifo-w":
		return f.fifo.write(b)
	case "conn":
		return f.conn.Write(b)
	}
	return 0, syscall.EBADF
}

func (f *FD) Close() error {
	if f.closed {
		return fs.ErrClosed
	}
	f.closed = true
	switch f.kind {
	case "fifo-r":
		f.fifo.readers--
	case "fifo-w":
		f.fifo.writers--
		if f.fifo.writers == 0 {
			Probe("fifo-had-zero-writers")
		}
	case "listener":
		f.lsock.refs--
	case "conn":
		f.conn.close()
	}
	if f.proc != nil {
		delete(f.proc.fds, f.Num)
	}
	return nil
}

// ---------------------------------------------------------------- FIFO

type Fifo struct {
	path       string
	buf        []byte
	readers    int
	writers    int
	everWriter bool
}

func (k *Kernel) Mkfifo(path string) error {
	if _, ok := k.fifos[path]; ok {
		return syscall.EEXIST
	}
	k.fifos[path] = &Fifo{path: path}
	return nil
}

// HasFifo reports whether path names a FIFO.
func (k *Kernel) HasFifo(path string) bool { _, ok := k.fifos[path]; return ok }

const (
	oRDONLY = 0
	oWRONLY = 1
)

// OpenFile opens a FIFO; as in POSIX, opening one end blocks until the other end exists.
func (k *Kernel) OpenFile(path string, flag int) (*FD, error) {
	ff, ok := k.fifos[path]
	if !ok {
		return nil, &fs.PathError{Op: "open", Path: path, Err: syscall.ENOENT}
	}
	p := k.cur()
	if flag&3 == oWRONLY {
		ff.writers++
		ff.everWriter = true
		fd := p.addFD(&FD{kind: "fifo-w", fifo: ff}, -1)
		Block("fifo.open-w", func() bool { return ff.readers > 0 })
		return fd, nil
	}
	ff.readers++
	fd := p.addFD(&FD{kind: "fifo-r", fifo: ff}, -1)
	Block("fifo.open-r", func() bool { return ff.writers > 0 || len(ff.buf) > 0 })
	return fd, nil
}

func (ff *Fifo) read(b []byte) (int, error) {
	Block("fifo.read", func() bool { return len(ff.buf) > 0 || ff.writers == 0 })
	if len(ff.buf) == 0 {
		Probe("fifo-read-returned-EOF")
		return 0, io.EOF // no writer left: end of file, exactly as read(2) on a FIFO
	}
	n := copy(b, ff.buf)
	ff.buf = ff.buf[n:]
	return n, nil
}

func (ff *Fifo) write(b []byte) (int, error) {
	if ff.readers == 0 {
		return 0, syscall.EPIPE
	}
	ff.buf = append(ff.buf, b...)
	Yield("fifo.write")
	return len(b), nil
}

// ---------------------------------------------------------------- sockets

type ListenSock struct {
	Addr   string
	queue  []*ConnEnd // server ends waiting to be accepted
	refs   int
	Closed bool
	k      *Kernel
}

// SockBuf is how many bytes a connection end holds for its reader before writes to it block
// (send + receive buffer of a real socket pair taken together).
const SockBuf = 64 << 10

type ConnEnd struct {
	peer      *ConnEnd
	in        []byte
	wlock     bool // a Write is in progress: like the fd mutex of a real net.Conn, writes are serialised
	closed    bool // this end closed
	ID        int
	k         *Kernel
	Accepted  bool
	AcceptPid int
}

func (k *Kernel) Listen(addr string) *FD {
	ls := &ListenSock{Addr: addr, k: k, refs: 1}
	k.Listeners = append(k.Listeners, ls)
	return k.cur().addFD(&FD{kind: "listener", lsock: ls}, -1)
}

// DupFD duplicates a descriptor into the current process (l.File()).
func (k *Kernel) DupFD(f *FD) *FD {
	nf := &FD{kind: f.kind, fifo: f.fifo, lsock: f.lsock, conn: f.conn}
	switch f.kind {
	case "listener":
		f.lsock.refs++
	case "fifo-w":
		f.fifo.writers++
	case "fifo-r":
		f.fifo.readers++
	}
	return k.cur().addFD(nf, -1)
}

// Dial connects a client to the listening socket; the server end waits in the shared accept queue.
func (k *Kernel) Dial(ls *ListenSock) (*ConnEnd, error) {
	if ls.Closed || ls.refs <= 0 {
		return nil, syscall.ECONNREFUSED
	}
	k.connSeq++
	c := &ConnEnd{k: k, ID: k.connSeq}
	s := &ConnEnd{k: k, ID: k.connSeq}
	c.peer, s.peer = s, c
	ls.queue = append(ls.queue, s)
	return c, nil
}

func (ls *ListenSock) Backlog() int { return len(ls.queue) }

// Accept blocks until a connection is queued; which blocked acceptor gets it is decided by
// which one the scheduler runs first.
func (ls *ListenSock) Accept() (*ConnEnd, error) {
	if Dying() {
		return nil, syscall.EBADF
	}
	for {
		Block("accept", func() bool { return len(ls.queue) > 0 || ls.Closed })
		if len(ls.queue) > 0 {
			c := ls.queue[0]
			ls.queue = ls.queue[1:]
			c.Accepted = true
			c.AcceptPid = ls.k.Getpid()
			if p := ls.k.cur(); p != nil {
				p.conns = append(p.conns, c)
			}
			ls.k.event("accept", c.AcceptPid, fmt.Sprintf("conn %d", c.ID))
			return c, nil
		}
		if ls.Closed {
			return nil, syscall.EBADF
		}
	}
}

func (c *ConnEnd) Read(b []byte) (int, error) {
	if Dying() {
		return 0, io.EOF
	}
	Block("conn.read", func() bool { return len(c.in) > 0 || c.peer.closed || c.closed })
	if c.closed {
		return 0, fs.ErrClosed
	}
	if len(c.in) == 0 {
		return 0, io.EOF
	}
	n := copy(b, c.in)
	c.in = c.in[n:]
	return n, nil
}

func (c *ConnEnd) Write(b []byte) (int, error) {
	if Dying() {
		return len(b), nil
	}
	if c.closed {
		return 0, fs.ErrClosed
	}
	if c.peer.closed {
		return 0, syscall.EPIPE
	}
	// writes on one connection are serialised; a write blocks while the peer's buffer is full
	Block("conn.write-lock", func() bool { return !c.wlock || c.closed })
	if c.closed {
		return 0, fs.ErrClosed
	}
	c.wlock = true
	defer func() { c.wlock = false }()
	n := 0
	for n < len(b) {
		Block("conn.write", func() bool { return len(c.peer.in) < SockBuf || c.peer.closed || c.closed })
		if Dying() {
			return n, nil
		}
		if c.closed {
			return n, fs.ErrClosed
		}
		if c.peer.closed {
			return n, syscall.EPIPE
		}
		room := SockBuf - len(c.peer.in)
		if room > len(b)-n {
			room = len(b) - n
		}
		c.peer.in = append(c.peer.in, b[n:n+room]...)
		n += room
	}
	Yield("conn.write")
	return len(b), nil
}

func (c *ConnEnd) close()           { c.closed = true }
func (c *ConnEnd) Close() error     { c.close(); return nil }
func (c *ConnEnd) PeerClosed() bool { return c.peer.closed }

// ---------------------------------------------------------------- exec / exit / kill

// StartProc starts argv[0]'s registered program in a new process (exec.Cmd.Start).
func (k *Kernel) StartProc(args, env []string, extra []*FD) (*Proc, error) {
	prog, ok := k.Programs[args[0]]
	if !ok {
		return nil, &fs.PathError{Op: "fork/exec", Path: args[0], Err: syscall.ENOENT}
	}
	parent := k.cur()
	p := k.NewProc(args[0], parent.Pid, args, env)
	for i, f := range extra {
		nf := &FD{kind: f.kind, fifo: f.fifo, lsock: f.lsock, conn: f.conn}
		if f.kind == "listener" {
			f.lsock.refs++
		}
		p.addFD(nf, 3+i)
	}
	k.event("spawn", p.Pid, fmt.Sprintf("by %d", parent.Pid))
	delay := p.SlowStart
	if h, ok := k.w.Ext["spawn-delay"].(func(*Proc) time.Duration); ok {
		delay = h(p)
	}
	k.w.Spawn(p, fmt.Sprintf("main[%d]", p.Pid), func() {
		if delay > 0 {
			Sleep(delay)
		}
		prog()
		// main returned: the process exits with status 0
		k.exitProc(p, 0, true)
	})
	return p, nil
}

// Exit ends the current process (os.Exit): never returns.
func (k *Kernel) Exit(code int) {
	if Dying() {
		return
	}
	p := k.cur()
	k.exitProc(p, code, true)
}

func (k *Kernel) exitProc(p *Proc, code int, parkCurrent bool) {
	if p == nil {
		return
	}
	if !p.Exited {
		p.Exited, p.ExitCode, p.ExitAt = true, code, k.w.Now()
		k.event("exit", p.Pid, fmt.Sprintf("status %d", code))
		var nums []int
		for n := range p.fds {
			nums = append(nums, n)
		}
		sort.Ints(nums)
		for _, n := range nums {
			p.fds[n].Close()
		}
		for _, c := range p.conns {
			c.close()
		}
		for _, t := range p.tasks {
			if t.state != tsDone && t != curTask() {
				t.state = tsFrozen
			}
		}
	}
	if parkCurrent {
		if t := curTask(); t != nil && t.Proc == p {
			k.w.sched.freezeCurrent()
		}
	}
}

// Kill delivers SIGKILL to pid (from a task of another process or from the driver).
func (k *Kernel) Kill(pid int) error {
	p := k.procs[pid]
	if p == nil || p.Exited {
		return syscall.ESRCH
	}
	p.Killed = true
	k.event("kill", pid, "SIGKILL")
	k.exitProc(p, -9, false)
	if t := curTask(); t != nil && t.Proc == p {
		k.w.sched.freezeCurrent()
	}
	return nil
}

// WaitProc blocks until the process has exited (cmd.Wait).
func (k *Kernel) WaitProc(p *Proc) int {
	if Dying() {
		return 0
	}
	Block("wait", func() bool { return p.Exited })
	return p.ExitCode
}

// Live lists live worker processes (children of ppid; any parent when ppid == 0).
func (k *Kernel) Live(ppid int) []*Proc {
	var out []*Proc
	for _, p := range k.Procs() {
		if !p.Exited && (ppid == 0 || p.PPid == ppid) {
			out = append(out, p)
		}
	}
	return out
}

// Stall stops every task of the process for d of simulated time (a stalled / starved process).
func (k *Kernel) Stall(p *Proc, d time.Duration) {
	if p == nil || p.Exited {
		return
	}
	p.StalledUntil = k.w.Now() + d
	k.event("stall", p.Pid, d.String())
	k.w.After(d, func() {}) // make sure the clock visits the instant the stall ends
}

// Signals

// Notify registers a signal deliverer for the current process (signal.Notify).
func (k *Kernel) Notify(deliver func(sig string)) {
	if p := k.cur(); p != nil {
		p.sigDeliver = append(p.sigDeliver, deliver)
	}
}

// Signal delivers a signal to pid (harness side).
func (k *Kernel) Signal(pid int, sig string) {
	if p := k.procs[pid]; p != nil && !p.Exited {
		k.event("signal", pid, sig)
		for _, d := range p.sigDeliver {
			d(sig)
		}
	}
}

var argsSwap func([]string)
var realArgs []string

func RegisterArgsSwap(f func([]string), real []string) { argsSwap = f; realArgs = real }

// Fatal is log.Fatal*: records the call site and exits the current process with status 1.
func (k *Kernel) Fatal(site, msg string) {
	p := k.cur()
	k.event("fatal", pidOf(p), site+": "+msg)
	k.exitProc(p, 1, true)
}
