package zsim

import (
	"io"
	"io/fs"
	"path"
	"sort"
	"strings"
	"syscall"
	"time"
)

// Disk is the simulated file system: an in-memory tree with a fault point at every
// operation. Which fault kinds may fire in a run is a per-run (swarm) choice made by the
// harness in Enabled; whether an enabled fault fires at a given operation is a tape draw.
type Disk struct {
	w     *World
	nodes map[string]*node

	Enabled map[string]bool // fault kind -> may fire in this run
	Rate    int             // a fault fires with probability 1/Rate per eligible operation (default 6)
	// ReadMode: 0 = every read fills the buffer as a regular file does; 1 = the length of
	// every read is a tape decision (FIFO, /dev/stdin, network file systems).
	ReadMode  int
	MaxFaults int // upper bound on injected faults per run (0 = unlimited)
	injected  int
	// Force: fault kind -> fire at exactly the k-th eligible operation (1-based), no draw
	Force map[string]int
	seen  map[string]int

	Ops map[string]int // operation counters (coverage)
}

type node struct {
	dir  bool
	data []byte
	perm fs.FileMode
	fifo bool // a named pipe / /dev/fd entry: stat reports size 0 and ModeNamedPipe, reads deliver the bytes
	// statSize >= 0: a regular file of a synthetic file system (procfs, sysfs, some FUSE mounts)
	// whose stat size says nothing about its content (typically 0 or one page)
	statSize int64
	statZero bool
}

// Fault kinds of the disk.
const (
	FStatEACCES   = "stat.eacces"
	FOpenVanished = "open.enoent-after-stat" // TOCTOU: the file disappears between stat and open
	FOpenEACCES   = "open.eacces"
	FOpenEMFILE   = "open.emfile"
	FReadEIO      = "read.eio"
	FReadShort    = "read.short" // not an error: a legal short read
	FWriteENOSPC  = "write.enospc"
	FWriteEROFS   = "write.erofs"
	FWriteTorn    = "write.torn" // a prefix persists, then the error
	FReadDirEIO   = "readdir.eio"
	FSyncEIO      = "fsync.eio"
)

var AllDiskFaults = []string{FStatEACCES, FOpenVanished, FOpenEACCES, FOpenEMFILE, FReadEIO, FReadShort, FWriteENOSPC, FWriteEROFS, FWriteTorn, FReadDirEIO, FSyncEIO}

func NewDisk(w *World) *Disk {
	d := &Disk{w: w, nodes: map[string]*node{"/": {dir: true, perm: 0o755}}, Enabled: map[string]bool{}, Rate: 6, Ops: map[string]int{}, Force: map[string]int{}, seen: map[string]int{}}
	w.Disk = d
	return d
}

// Cwd is the working directory of the simulated process: state of the whole process, shared
// by every execution in it.
func Cwd() string {
	if w := W; w != nil {
		if c, ok := w.Ext["cwd"].(string); ok {
			return c
		}
	}
	return "/cwd"
}

var cwdCell = new(int) // identity of the process-wide working directory for the access tracker

// Chdir changes the working directory of the simulated process.
func (d *Disk) Chdir(p string) error {
	cp := clean(p)
	n, ok := d.nodes[cp]
	if !ok {
		return perr("chdir", p, syscall.ENOENT)
	}
	if !n.dir {
		return perr("chdir", p, syscall.ENOTDIR)
	}
	Access("os.Chdir", true, cwdCell, "process.working-directory")
	d.w.Ext["cwd"] = cp
	return nil
}

// Getwd reads it.
func (d *Disk) Getwd() string {
	Access("os.Getwd", false, cwdCell, "process.working-directory")
	return Cwd()
}

func clean(p string) string {
	if !strings.HasPrefix(p, "/") {
		p = Cwd() + "/" + p
	}
	return path.Clean(p)
}

// ---- harness-side construction (never faulted)

func (d *Disk) MkdirAll(p string) {
	p = clean(p)
	for p != "/" {
		if _, ok := d.nodes[p]; !ok {
			d.nodes[p] = &node{dir: true, perm: 0o755}
		}
		p = path.Dir(p)
	}
}

func (d *Disk) Put(p string, data []byte) {
	p = clean(p)
	d.MkdirAll(path.Dir(p))
	cp := make([]byte, len(data))
	copy(cp, data)
	d.nodes[p] = &node{data: cp, perm: 0o644}
}

func (d *Disk) Remove(p string) { delete(d.nodes, clean(p)) }

// PutPipe stores content that is served like a named pipe with a writer attached: stat says
// size 0 / ModeNamedPipe, reads deliver the bytes (in whatever chunks the read mode decides).
func (d *Disk) PutPipe(p string, data []byte) {
	d.Put(p, data)
	d.nodes[clean(p)].fifo = true
}

// PutSynthetic stores content as a regular file whose stat size is unrelated to it (procfs-like).
func (d *Disk) PutSynthetic(p string, data []byte, statSize int64) {
	d.Put(p, data)
	n := d.nodes[clean(p)]
	n.statSize, n.statZero = statSize, statSize == 0
}

// Mkdir creates one directory (parent must exist).
func (d *Disk) Mkdir(p string) error {
	cp := clean(p)
	if _, ok := d.nodes[cp]; ok {
		return perr("mkdir", p, syscall.EEXIST)
	}
	parent, ok := d.nodes[path.Dir(cp)]
	if !ok {
		return perr("mkdir", p, syscall.ENOENT)
	}
	if !parent.dir {
		return perr("mkdir", p, syscall.ENOTDIR)
	}
	d.nodes[cp] = &node{dir: true, perm: 0o755}
	return nil
}

// Rename moves a file.
func (d *Disk) Rename(from, to string) error {
	n, ok := d.nodes[clean(from)]
	if !ok {
		return perr("rename", from, syscall.ENOENT)
	}
	if _, ok := d.nodes[path.Dir(clean(to))]; !ok {
		return perr("rename", to, syscall.ENOENT)
	}
	delete(d.nodes, clean(from))
	d.nodes[clean(to)] = n
	return nil
}

// Exists reports whether a path exists (oracle side and os.Remove).
func (d *Disk) Exists(p string) bool { _, ok := d.nodes[clean(p)]; return ok }

// Peek returns the current content of a file without any fault (oracle side).
func (d *Disk) Peek(p string) ([]byte, bool) {
	n, ok := d.nodes[clean(p)]
	if !ok || n.dir {
		return nil, false
	}
	return n.data, true
}

func (d *Disk) IsDir(p string) bool {
	n, ok := d.nodes[clean(p)]
	return ok && n.dir
}

// ---- fault decision

func (d *Disk) fire(kind string) bool {
	if k, ok := d.Force[kind]; ok {
		// fault enumeration: this kind fires at exactly its k-th eligible operation
		d.seen[kind]++
		if d.seen[kind] == k {
			d.injected++
			d.w.Fault("disk." + kind)
			d.w.Logf("FAULT disk.%s (forced at opportunity %d)", kind, k)
			return true
		}
		return false
	}
	if !d.Enabled[kind] {
		return false
	}
	if d.MaxFaults > 0 && d.injected >= d.MaxFaults {
		return false
	}
	rate := d.Rate
	if rate < 2 {
		rate = 2
	}
	if d.w.T.Chance(1, rate) {
		d.injected++
		d.w.Fault("disk." + kind)
		d.w.Logf("FAULT disk.%s", kind)
		return true
	}
	return false
}

func perr(op, p string, e error) error { return &fs.PathError{Op: op, Path: p, Err: e} }

// ---- operations used by the os shim

type SimInfo struct {
	name string
	n    *node
}

func (i SimInfo) Name() string { return i.name }
func (i SimInfo) Size() int64 {
	if i.n.fifo {
		return 0 // stat(2) on a pipe
	}
	if i.n.statSize > 0 || i.n.statZero {
		return i.n.statSize
	}
	return int64(len(i.n.data))
}
func (i SimInfo) Mode() fs.FileMode {
	if i.n.dir {
		return fs.ModeDir | i.n.perm
	}
	if i.n.fifo {
		return fs.ModeNamedPipe | i.n.perm
	}
	return i.n.perm
}
func (i SimInfo) ModTime() time.Time         { return time.Unix(0, 0) }
func (i SimInfo) IsDir() bool                { return i.n.dir }
func (i SimInfo) Sys() interface{}           { return nil }
func (i SimInfo) Type() fs.FileMode          { return i.Mode().Type() }
func (i SimInfo) Info() (fs.FileInfo, error) { return i, nil }

func (d *Disk) Stat(p string) (fs.FileInfo, error) {
	d.Ops["stat"]++
	cp := clean(p)
	n, ok := d.nodes[cp]
	if !ok {
		return nil, perr("stat", p, syscall.ENOENT)
	}
	if d.fire(FStatEACCES) {
		return nil, perr("stat", p, syscall.EACCES)
	}
	return SimInfo{name: path.Base(cp), n: n}, nil
}

// SimFile is an open simulated file.
type SimFile struct {
	d          *Disk
	n          *node
	Path       string
	off        int
	closed     bool
	reads      int
	write      bool
	appendMode bool
}

// OpenLimit bounds the SOURCE files (*.zn) one run may open (the largest generated project has a dozen):
// a tree that loads modules without end — an import cycle it no longer recognises — ends in a
// recoverable panic here long before its recursion has grown a dangerous stack.
const OpenLimit = 3000

const OpenPanic = "zsim: unbounded loading: more than 3000 source files opened in one run"

func (d *Disk) Open(p string) (*SimFile, error) {
	d.Ops["open"]++
	if strings.HasSuffix(p, ".zn") {
		// (source files only: a program may legitimately read one data file thousands of times)
		d.Ops["open-source"]++
		if d.Ops["open-source"] > OpenLimit {
			panic(OpenPanic)
		}
	}
	cp := clean(p)
	n, ok := d.nodes[cp]
	if !ok {
		return nil, perr("open", p, syscall.ENOENT)
	}
	if d.fire(FOpenVanished) {
		return nil, perr("open", p, syscall.ENOENT)
	}
	if d.fire(FOpenEACCES) {
		return nil, perr("open", p, syscall.EACCES)
	}
	if d.fire(FOpenEMFILE) {
		return nil, perr("open", p, syscall.EMFILE)
	}
	return &SimFile{d: d, n: n, Path: cp}, nil
}

func (f *SimFile) Read(b []byte) (int, error) {
	d := f.d
	d.Ops["read"]++
	if f.closed {
		return 0, perr("read", f.Path, fs.ErrClosed)
	}
	if f.n.dir {
		return 0, perr("read", f.Path, syscall.EISDIR)
	}
	if len(b) == 0 {
		return 0, nil
	}
	f.reads++
	if d.fire(FReadEIO) {
		return 0, perr("read", f.Path, syscall.EIO)
	}
	remain := len(f.n.data) - f.off
	if remain <= 0 {
		return 0, io.EOF
	}
	n := len(b)
	if n > remain {
		n = remain
	}
	if _, forced := d.Force[FReadShort]; forced && n > 1 {
		if d.fire(FReadShort) {
			n = 1
		}
	} else if d.ReadMode == 2 && n > 1 {
		// a writer that trickles: every read delivers a few bytes (a pipe fed line by line)
		if k := 1 + d.w.T.Draw(12); k < n {
			n = k
			d.w.Faults["disk."+FReadShort]++
		}
	} else if d.ReadMode == 1 && n > 1 && d.Enabled[FReadShort] {
		switch d.w.T.Draw(4) {
		case 0: // full
		case 1: // a random shorter length
			k := 1 + d.w.T.Draw(n-1)
			if k < n {
				n = k
				d.w.Fault("disk." + FReadShort)
			}
		case 2: // one byte
			n = 1
			d.w.Fault("disk." + FReadShort)
		case 3: // all but a few bytes (ends inside a multi-byte character more often)
			k := n - 1 - d.w.T.Draw(3)
			if k >= 1 && k < n {
				n = k
				d.w.Fault("disk." + FReadShort)
			}
		}
	}
	copy(b, f.n.data[f.off:f.off+n])
	f.off += n
	return n, nil
}

// OpenFile opens with flags (POSIX subset: O_RDONLY/O_WRONLY/O_RDWR, O_CREATE, O_TRUNC, O_APPEND, O_EXCL).
func (d *Disk) OpenFile(p string, flag int, perm fs.FileMode) (*SimFile, error) {
	const (
		oWR     = 0x1
		oRDWR   = 0x2
		oCREATE = 0x40
		oEXCL   = 0x80
		oTRUNC  = 0x200
		oAPPEND = 0x400
	)
	writing := flag&(oWR|oRDWR) != 0
	if !writing {
		return d.Open(p)
	}
	d.Ops["open-w"]++
	cp := clean(p)
	n, exists := d.nodes[cp]
	if exists && flag&oEXCL != 0 && flag&oCREATE != 0 {
		return nil, perr("open", p, syscall.EEXIST)
	}
	if !exists {
		if flag&oCREATE == 0 {
			return nil, perr("open", p, syscall.ENOENT)
		}
		parent, ok := d.nodes[path.Dir(cp)]
		if !ok {
			return nil, perr("open", p, syscall.ENOENT)
		}
		if !parent.dir {
			return nil, perr("open", p, syscall.ENOTDIR)
		}
	} else if n.dir {
		return nil, perr("open", p, syscall.EISDIR)
	}
	if d.fire(FWriteEROFS) {
		return nil, perr("open", p, syscall.EROFS)
	}
	if d.fire(FOpenEACCES) {
		return nil, perr("open", p, syscall.EACCES)
	}
	if d.fire(FOpenEMFILE) {
		return nil, perr("open", p, syscall.EMFILE)
	}
	if !exists {
		n = &node{perm: perm}
		d.nodes[cp] = n
	}
	if flag&oTRUNC != 0 {
		n.data = nil
	}
	f := &SimFile{d: d, n: n, Path: cp, write: true, appendMode: flag&oAPPEND != 0}
	return f, nil
}

func (f *SimFile) Write(b []byte) (int, error) {
	d := f.d
	d.Ops["write"]++
	if f.closed {
		return 0, perr("write", f.Path, fs.ErrClosed)
	}
	if !f.write {
		return 0, perr("write", f.Path, syscall.EBADF)
	}
	if d.fire(FWriteENOSPC) {
		return 0, perr("write", f.Path, syscall.ENOSPC)
	}
	k := len(b)
	var ferr error
	if len(b) > 1 && d.fire(FWriteTorn) {
		k = 1 + d.w.T.Draw(len(b)-1)
		ferr = perr("write", f.Path, syscall.ENOSPC)
	}
	if f.appendMode {
		f.off = len(f.n.data)
	}
	for len(f.n.data) < f.off {
		f.n.data = append(f.n.data, 0)
	}
	f.n.data = append(f.n.data[:f.off], append(append([]byte{}, b[:k]...), tailFrom(f.n.data, f.off+k)...)...)
	f.off += k
	return k, ferr
}

func tailFrom(b []byte, i int) []byte {
	if i >= len(b) {
		return nil
	}
	return b[i:]
}

func (f *SimFile) Sync() error {
	f.d.Ops["fsync"]++
	if f.closed {
		return perr("sync", f.Path, fs.ErrClosed)
	}
	if f.d.fire(FSyncEIO) {
		return perr("sync", f.Path, syscall.EIO)
	}
	return nil
}

func (f *SimFile) Info() fs.FileInfo { return SimInfo{name: path.Base(f.Path), n: f.n} }

func (f *SimFile) Close() error {
	if f.closed {
		return perr("close", f.Path, fs.ErrClosed)
	}
	f.closed = true
	return nil
}

func (d *Disk) WriteFile(p string, data []byte, perm fs.FileMode) error {
	d.Ops["write"]++
	cp := clean(p)
	parent, ok := d.nodes[path.Dir(cp)]
	if !ok {
		return perr("open", p, syscall.ENOENT)
	}
	if !parent.dir {
		return perr("open", p, syscall.ENOTDIR)
	}
	if n, ok := d.nodes[cp]; ok && n.dir {
		return perr("open", p, syscall.EISDIR)
	}
	if d.fire(FWriteEROFS) {
		return perr("open", p, syscall.EROFS)
	}
	if d.fire(FWriteENOSPC) {
		// O_TRUNC already happened: the file exists and is empty
		d.nodes[cp] = &node{data: nil, perm: perm}
		return perr("write", p, syscall.ENOSPC)
	}
	if len(data) > 1 && d.fire(FWriteTorn) {
		k := 1 + d.w.T.Draw(len(data)-1)
		cpd := make([]byte, k)
		copy(cpd, data[:k])
		d.nodes[cp] = &node{data: cpd, perm: perm}
		return perr("write", p, syscall.ENOSPC)
	}
	cpd := make([]byte, len(data))
	copy(cpd, data)
	d.nodes[cp] = &node{data: cpd, perm: perm}
	return nil
}

// ReadDirNative lists a directory in the order the file system happens to keep it (hash order,
// creation order …): nothing a program may depend on. The order is a permutation chosen by the
// tape whenever map orders are (World.MapMode == MapTape), the sorted one otherwise.
func (d *Disk) ReadDirNative(p string) ([]fs.DirEntry, error) {
	es, err := d.ReadDir(p)
	if err != nil || len(es) < 2 {
		return es, err
	}
	// treated like one more iteration-order site, so that a divergence can be attributed to it
	const site = "fs.directory-order"
	d.w.MapHits[site]++
	if d.w.MapMode != MapTape || (d.w.MapOnly != nil && !d.w.MapOnly[site]) {
		return es, err
	}
	n := len(es)
	switch d.w.T.Draw(4) {
	case 0:
	case 1:
		for i, j := 0, n-1; i < j; i, j = i+1, j-1 {
			es[i], es[j] = es[j], es[i]
		}
	case 2:
		k := 1 + d.w.T.Draw(n-1)
		es = append(append([]fs.DirEntry{}, es[k:]...), es[:k]...)
	case 3:
		for i := n - 1; i > 0; i-- {
			j := d.w.T.Draw(i + 1)
			es[i], es[j] = es[j], es[i]
		}
	}
	d.w.MapPermute[site]++
	return es, nil
}

func (d *Disk) ReadDir(p string) ([]fs.DirEntry, error) {
	d.Ops["readdir"]++
	cp := clean(p)
	n, ok := d.nodes[cp]
	if !ok {
		return nil, perr("open", p, syscall.ENOENT)
	}
	if !n.dir {
		return nil, perr("readdirent", p, syscall.ENOTDIR)
	}
	if d.fire(FReadDirEIO) {
		return nil, perr("readdirent", p, syscall.EIO)
	}
	prefix := cp
	if prefix != "/" {
		prefix += "/"
	}
	var names []string
	for k := range d.nodes { // order fixed by the sort below
		if k != cp && strings.HasPrefix(k, prefix) && !strings.Contains(k[len(prefix):], "/") {
			names = append(names, k)
		}
	}
	sort.Strings(names)
	var out []fs.DirEntry
	for _, k := range names {
		out = append(out, SimInfo{name: path.Base(k), n: d.nodes[k]})
	}
	return out, nil
}

// Paths lists all paths (sorted) – oracle side.
func (d *Disk) Paths() []string {
	var out []string
	for k := range d.nodes {
		out = append(out, k)
	}
	sort.Strings(out)
	return out
}
