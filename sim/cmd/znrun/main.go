// znrun: development helper – runs a Zn script (arg or stdin) on the untransformed /repo.
package main

import (
	"fmt"
	"io"
	"os"

	"github.com/DemoHn/Zn/pkg/exec"
	r "github.com/DemoHn/Zn/pkg/runtime"
	libFile "github.com/DemoHn/Zn/stdlib/file"
	libJson "github.com/DemoHn/Zn/stdlib/json"
)

func main() {
	in := exec.NewInterpreter("dev").SetExternalLibs([]*r.Library{libJson.Export(), libFile.Export()})
	var res r.Element
	var err error
	if len(os.Args) > 1 {
		res, err = in.LoadFile(os.Args[1]).Execute(map[string]r.Element{})
	} else {
		b, _ := io.ReadAll(os.Stdin)
		res, err = in.LoadScript([]rune(string(b))).Execute(map[string]r.Element{})
	}
	if err != nil {
		fmt.Printf("ERROR(%T):\n%s\n", err, exec.DisplayError(err))
		return
	}
	if res == nil {
		fmt.Println("RESULT: <nil element>")
		return
	}
	fmt.Printf("RESULT(%T): %s\n", res, res.String())
}
