package main

// C15 — modules load once, export read-only names, cycles are reported. Module graphs are
// laid out on the simulated disk and loaded through the real LoadFile finder; a small
// executable loader model predicts marker trace, result or error class.

import (
	"fmt"
	"sort"
	"strings"

	"github.com/DemoHn/Zn/znverif/hlib"
	"github.com/DemoHn/Zn/znverif/zsim"
)

func init() { registry["C15"] = runC15 }

type c15Mod struct {
	Name    string   `json:"name"`    // import name, e.g. "库-甲"
	Path    string   `json:"path"`    // file path on disk
	Imports []c15Imp `json:"imports"` // textual order
	Funcs   []c15Fn  `json:"funcs"`
	HasType bool     `json:"has_type"`
	Ctor    bool     `json:"type_has_constructor,omitempty"` // the type has an explicit constructor that calls a sibling of its module
	Bare    bool     `json:"bare,omitempty"` // nothing but its 导入 lines: no statement, no export
	Source  string   `json:"source"`
	Missing bool     `json:"missing,omitempty"`
	Damage  string   `json:"damage,omitempty"`
}

type c15Imp struct {
	As     string   `json:"spelled,omitempty"` // how the import statement spells the name (库/丁 for 库-丁)
	Target string   `json:"target"`          // module name or "@JSON" / "@无此库"
	Items  []string `json:"items,omitempty"` // selective list (nil = all)
}

type c15Fn struct {
	Name   string `json:"name"`
	Callee string `json:"callee,omitempty"` // function of the same module or of an imported one it calls
	Shadow string `json:"shadow,omitempty"` // a local of this function named like a method/type of its own module (legal shadowing)
	TypeCall string `json:"type_call,omitempty"` // an IMPORTED type of which this function builds an object and calls the method 叫
}

type c15Scenario struct {
	Mods     []*c15Mod `json:"modules"`
	Main     *c15Mod   `json:"main"`
	Faults   []string  `json:"enabled_faults,omitempty"`
	Expected string    `json:"expected"`
	Got      string    `json:"got"`
	Shape    string    `json:"shape"`
}

// a plain name, nested names sharing a prefix, and a module 库 whose file 库.zn sits next to the directory 库/
// … and a module whose NAME ends in .zn (file 甲.zn.zn), next to the module 甲 (file 甲.zn)
var c15Names = []string{"甲", "乙", "丙", "库-丁", "库-深-戊", "库", "甲.zn"}

// a second family of names: nested modules over a two-name alphabet, so that directories are
// named like modules and different (importer, imported) pairs spell alike once joined with the
// separator (甲 + 甲-甲 / 甲-甲 + 甲)
var c15NamesNested = []string{"甲", "甲-甲", "甲-乙", "乙-甲", "乙", "甲-甲-甲", "乙-乙"}

func c15Path(name string) string {
	return "/proj/" + strings.ReplaceAll(name, "-", "/") + ".zn"
}

func c15Tag(name string) string { // identifier-safe tag of a module
	return strings.ReplaceAll(strings.ReplaceAll(name, "-", ""), ".", "")
}

// ---------------------------------------------------------------- reference loader model

type c15Model struct {
	mods    map[string]*c15Mod
	loaded  map[string]bool
	loading map[string]bool
	display []string
	errCode int
	faulty  map[string]bool // modules whose file is damaged / missing
}

// exportsOf lists the names a module exports.
func exportsOf(m *c15Mod) []string {
	var out []string
	for _, f := range m.Funcs {
		out = append(out, f.Name)
	}
	if m.HasType {
		out = append(out, c15Tag(m.Name)+"型")
	}
	return out
}

// load returns the set of names visible in m after its imports (name -> home module) or stops at the first error.
func (md *c15Model) load(m *c15Mod) (map[string]string, bool) {
	visible := map[string]string{}
	for _, imp := range m.Imports {
		if strings.HasPrefix(imp.Target, "@") {
			if imp.Target != "@JSON" {
				md.errCode = 64
				return nil, false
			}
			continue
		}
		dep, ok := md.mods[imp.Target]
		if !ok || dep.Missing {
			md.errCode = 60
			return nil, false
		}
		if md.loading[dep.Name] {
			md.errCode = 63
			return nil, false
		}
		if !md.loaded[dep.Name] {
			if dep.Damage != "" {
				md.errCode = -1 // some load error, class unspecified
				return nil, false
			}
			md.loading[dep.Name] = true
			if _, ok := md.load(dep); !ok {
				return nil, false
			}
			if !dep.Bare {
				md.display = append(md.display, "body "+dep.Name)
			}
			md.loading[dep.Name] = false
			md.loaded[dep.Name] = true
		}
		names := exportsOf(dep)
		if imp.Items != nil {
			var listed []string
			for _, it := range imp.Items {
				for _, ex := range names {
					if it == ex {
						listed = append(listed, it)
					}
				}
			}
			names = listed
		}
		for _, n := range names {
			visible[n] = dep.Name
		}
	}
	return visible, true
}

// call evaluates the string a function returns.
func (md *c15Model) call(fn string, depth int) string {
	if depth > 8 {
		return "…"
	}
	for _, m := range md.mods {
		for _, f := range m.Funcs {
			if f.Name == fn {
				res := fn
				if f.TypeCall != "" {
					// the type's method runs in the type's own module, whoever calls it
					for _, hm := range md.mods {
						if hm.HasType && c15Tag(hm.Name)+"型" == f.TypeCall {
							return res + ">叫>" + md.call(hm.Funcs[0].Name, depth+1)
						}
					}
				}
				if f.Shadow != "" {
					res += "|影"
				}
				if f.Callee == "" {
					return res
				}
				return res + ">" + md.call(f.Callee, depth+1)
			}
		}
	}
	return "?" + fn
}

// ---------------------------------------------------------------- generation

func c15Source(m *c15Mod, isMain bool, mainStmts []string) string {
	var sb strings.Builder
	for _, imp := range m.Imports {
		q := "“" + imp.Target + "”"
		if imp.As != "" {
			q = "“" + imp.As + "”"
		}
		if strings.HasPrefix(imp.Target, "@") {
			q = "《" + imp.Target + "》"
			if imp.As == "quoted" {
				q = "“" + imp.Target + "”" // a library may also be named in ordinary quotes
			}
		}
		if imp.Items != nil {
			fmt.Fprintf(&sb, "导入%s的%s\n", q, strings.Join(imp.Items, "、"))
		} else {
			fmt.Fprintf(&sb, "导入%s\n", q)
		}
	}
	sb.WriteString("\n")
	if isMain {
		for _, s := range mainStmts {
			sb.WriteString(s + "\n")
		}
		return sb.String()
	}
	if m.Bare {
		// an aggregator: its file consists of 导入 lines (and perhaps a comment) only
		if len(m.Imports)%2 == 1 {
			sb.WriteString("注：本模块只汇总其他模块\n")
		}
		return sb.String()
	}
	fmt.Fprintf(&sb, "（显示：“body %s”）\n\n", m.Name)
	for _, f := range m.Funcs {
		head, self := "", "“"+f.Name+"”"
		if f.Shadow != "" {
			// a local named like a sibling (or like the function itself) shadows that method inside this body only
			head = fmt.Sprintf("\t令%s = “影”\n", f.Shadow)
			self = fmt.Sprintf("以“%s|”（拼接：%s）", f.Name, f.Shadow)
		}
		if f.Shadow == "" && f.Callee != "" {
			self = "“" + f.Name + "”"
		}
		if f.TypeCall != "" {
			fmt.Fprintf(&sb, "如何%s？\n\t令物 = （新建%s）\n\t令叫果 = 以物（叫）\n\t令头 = 以“%s”（拼接：“>”）\n\t输出以头（拼接：叫果）\n\n", f.Name, f.TypeCall, f.Name)
			continue
		}
		if f.Callee == "" {
			fmt.Fprintf(&sb, "如何%s？\n%s\t输出%s\n\n", f.Name, head, self)
		} else {
			fmt.Fprintf(&sb, "如何%s？\n%s\t令己 = %s\n\t令头 = 以己（拼接：“>”）\n\t输出以头（拼接：（%s））\n\n", f.Name, head, self, f.Callee)
		}
	}
	if m.HasType {
		tag := c15Tag(m.Name)
		if m.Ctor {
			// an explicit constructor: like every method of the module it runs in its own module,
			// whoever constructs the object
			fmt.Fprintf(&sb, "定义%s型：\n\t其名 = “%s型”\n\t其记 = “”\n\n\t如何叫？\n\t\t输出以“叫>”（拼接：（%s））\n\n如何新建%s型？\n\t其记 = 以“造>”（拼接：（%s））\n\n", tag, tag, m.Funcs[0].Name, tag, m.Funcs[len(m.Funcs)-1].Name)
		} else {
			fmt.Fprintf(&sb, "定义%s型：\n\t其名 = “%s型”\n\n\t如何叫？\n\t\t输出以“叫>”（拼接：（%s））\n\n", tag, tag, m.Funcs[0].Name)
		}
	}
	return sb.String()
}

// c15Enum maps a run index to (module count, adjacency bitmask): all digraphs (self-loops
// included) on 1, 2, 3 and 4 modules in turn — 2 + 16 + 512 + 65536 graphs.
func c15Enum(idx, maxK int) (int, uint64, bool) {
	for k := 1; k <= maxK && k <= 4; k++ {
		n := 1 << uint(k*k)
		if idx < n {
			return k, uint64(idx), true
		}
		idx -= n
	}
	return 0, 0, false
}

func runC15(t *zsim.Tape, cfg *hlib.Config) *hlib.Outcome {
	sc := &c15Scenario{}
	out := &hlib.Outcome{Scenario: sc, Note: map[string]int{}}
	names := c15Names
	if t.Draw(3) == 1 {
		names = c15NamesNested
	}
	k := 1 + t.Draw(len(names))
	enumK, enumAdj, enumerated := 0, uint64(0), false
	if mk := cfg.Int("enum", 0); mk > 0 {
		if ek, adj, ok := c15Enum(cfg.RunIndex, mk); ok {
			k, enumK, enumAdj, enumerated = ek, ek, adj, true
			out.Note[fmt.Sprintf("enumerated-digraphs-on-%d-modules", ek)]++
		}
	}
	// which names are used
	for i := 0; i < k; i++ {
		n := names[i]
		sc.Mods = append(sc.Mods, &c15Mod{Name: n, Path: c15Path(n)})
	}
	byName := map[string]*c15Mod{}
	for _, m := range sc.Mods {
		byName[m.Name] = m
	}
	// functions first (so importers can refer to them)
	for _, m := range sc.Mods {
		tag := c15Tag(m.Name)
		nf := 1 + t.Draw(2)
		for j := 0; j < nf; j++ {
			m.Funcs = append(m.Funcs, c15Fn{Name: fmt.Sprintf("%s法%d", tag, j+1)})
		}
		m.HasType = t.Draw(3) == 0
		m.Ctor = m.HasType && t.Draw(2) == 1
		if t.Draw(7) == 6 {
			// a module without a body: only its imports (if it gets any) — still loaded once,
			// still part of cycles, still loading what it imports
			m.Bare, m.Funcs, m.HasType, m.Ctor = true, nil, false, false
		}
	}
	// edges: mostly acyclic (importing only later modules), sometimes anything goes
	cyclic := t.Draw(4) == 0
	for i, m := range sc.Mods {
		for j, dep := range sc.Mods {
			if !enumerated && !cyclic && j <= i {
				continue
			}
			edge := t.Draw(3) == 0
			if enumerated {
				edge = enumAdj&(1<<uint(i*enumK+j)) != 0
			}
			if edge {
				imp := c15Imp{Target: dep.Name}
				if t.Draw(4) == 0 && !dep.Bare { // selective import: a drawn non-empty subset of the exports, in drawn order
					imp.Items = c15Subset(t, exportsOf(dep))
				}
				m.Imports = append(m.Imports, imp)
			}
		}
		if t.Draw(6) == 0 {
			m.Imports = append(m.Imports, c15Imp{Target: "@JSON"})
		}
		// import order is drawn
		for a := len(m.Imports) - 1; a > 0; a-- {
			b := a - t.Draw(a+1)
			m.Imports[a], m.Imports[b] = m.Imports[b], m.Imports[a]
		}
	}
	// callees: a function may call another function of its own module or an imported one
	for _, m := range sc.Mods {
		var cands []string
		for _, f := range m.Funcs {
			cands = append(cands, f.Name)
		}
		seen := map[string]bool{}
		var types []string
		for _, imp := range m.Imports {
			if dep, ok := byName[imp.Target]; ok && imp.Target != m.Name && !seen[imp.Target] {
				seen[imp.Target] = true
				names := exportsOf(dep)
				if imp.Items != nil {
					var listed []string
					for _, it := range imp.Items {
						for _, ex := range names {
							if it == ex {
								listed = append(listed, it)
							}
						}
					}
					names = listed
				}
				for _, n := range names {
					if strings.Contains(n, "法") {
						cands = append(cands, n)
					}
					if strings.HasSuffix(n, "型") {
						types = append(types, n)
					}
				}
			}
		}
		for j := range m.Funcs {
			if len(types) > 0 && t.Draw(2) == 1 {
				// this function builds an object of an imported type and calls its method
				m.Funcs[j].TypeCall = types[t.Draw(len(types))]
				continue
			}
			if t.Draw(2) == 1 {
				c := cands[t.Draw(len(cands))]
				// own-module callee: only a later function, so there is no recursion
				own := false
				for jj, f2 := range m.Funcs {
					if f2.Name == c {
						own = true
						if jj <= j {
							c = ""
						}
					}
				}
				_ = own
				m.Funcs[j].Callee = c
			}
			if t.Draw(5) == 4 {
				// shadow a name of the own module that this function does not call
				var names []string
				for _, f2 := range m.Funcs {
					if f2.Name != m.Funcs[j].Callee {
						names = append(names, f2.Name)
					}
				}
				if m.HasType {
					names = append(names, c15Tag(m.Name)+"型")
				}
				if len(names) > 0 {
					m.Funcs[j].Shadow = names[t.Draw(len(names))]
				}
			}
		}
	}
	// main
	main := &c15Mod{Name: "main", Path: "/proj/main.zn"}
	sc.Main = main
	for _, m := range sc.Mods {
		if t.Draw(2) == 1 || len(main.Imports) == 0 && m == sc.Mods[len(sc.Mods)-1] {
			imp := c15Imp{Target: m.Name}
			if t.Draw(4) == 0 && !m.Bare {
				imp.Items = c15Subset(t, exportsOf(m))
			}
			main.Imports = append(main.Imports, imp)
		}
	}
	misuse := t.Draw(8)
	switch misuse {
	case 1:
		main.Imports = append(main.Imports, c15Imp{Target: "不存在"})
	case 2:
		main.Imports = append(main.Imports, c15Imp{Target: "@无此库"})
	case 3:
		main.Imports = append(main.Imports, c15Imp{Target: "@JSON"})
	case 5:
		// a name that merely BEGINS like a registered library is another, unregistered library
		main.Imports = append(main.Imports, c15Imp{Target: []string{"@JSON-扩展", "@JSON-", "@JSON-v2", "@JSON2", "@json", "@"}[t.Draw(6)]})
	case 4:
		// the FILE name written where the module name belongs: 导入“甲.zn” means 甲.zn.zn, which
		// does not exist (unless the module of that name is part of this graph)
		alias := sc.Mods[t.Draw(len(sc.Mods))].Name + ".zn"
		if _, exists := byName[alias]; !exists {
			main.Imports = append(main.Imports, c15Imp{Target: alias})
		}
	}
	// faults on the disk layout
	damage := t.Draw(10)
	if damage >= 7 {
		victim := sc.Mods[t.Draw(len(sc.Mods))]
		switch damage {
		case 7:
			victim.Missing = true
		case 8:
			victim.Damage = "directory-in-place-of-file"
		case 9:
			victim.Damage = "not-utf8"
		}
	}
	// a nested module may be written with slashes by everybody who imports it (库/丁 for 库-丁):
	// the same file, the same module, still loaded once
	for _, m := range sc.Mods {
		if strings.Contains(m.Name, "-") && t.Draw(3) == 2 {
			for _, im := range append([]*c15Mod{main}, sc.Mods...) {
				for i := range im.Imports {
					if im.Imports[i].Target == m.Name {
						im.Imports[i].As = strings.ReplaceAll(m.Name, "-", "/")
					}
				}
			}
		}
	}
	for _, im := range append([]*c15Mod{main}, sc.Mods...) {
		for i := range im.Imports {
			if strings.HasPrefix(im.Imports[i].Target, "@") && t.Draw(3) == 2 {
				im.Imports[i].As = "quoted"
			}
		}
	}
	// the main file is a module like any other as far as names go: in one scenario in ten
	// something (main itself, or a module) imports the MAIN file's module name — under the file
	// name main.zn, or under 主模块.zn, the name the main module is registered with. Reached from
	// main that import closes a cycle.
	mainAsModule := false
	if t.Draw(10) == 9 {
		mainAsModule = true
		if t.Draw(2) == 1 {
			main.Name, main.Path = "主模块", "/proj/主模块.zn"
		}
		importer := main
		if x := t.Draw(len(sc.Mods) + 1); x > 0 {
			importer = sc.Mods[x-1]
		}
		importer.Imports = append(importer.Imports, c15Imp{Target: main.Name})
		byName[main.Name] = main
	}
	// reference model run
	md := &c15Model{mods: byName, loaded: map[string]bool{}, loading: map[string]bool{}}
	if mainAsModule {
		md.loading[main.Name] = true
	}
	visible, ok := md.load(main)
	var mainStmts []string
	mainStmts = append(mainStmts, "（显示：“main”）")
	expDisp := append([]string{}, md.display...)
	expCode := md.errCode
	if ok {
		expDisp = append(expDisp, "main")
		var vis []string
		for n := range visible {
			vis = append(vis, n)
		}
		sort.Strings(vis)
		ncalls := t.Draw(4)
		for c := 0; c < ncalls && len(vis) > 0; c++ {
			n := vis[t.Draw(len(vis))]
			if strings.HasSuffix(n, "型") {
				home := byName[visible[n]]
				if home.Ctor {
					mainStmts = append(mainStmts, fmt.Sprintf("令O%d = （新建%s）", c, n), fmt.Sprintf("（显示：O%d 之 名、O%d 之 记、以O%d（叫））", c, c, c))
					expDisp = append(expDisp, fmt.Sprintf("%s 造>%s 叫>%s", n, md.call(home.Funcs[len(home.Funcs)-1].Name, 0), md.call(home.Funcs[0].Name, 0)))
				} else {
					mainStmts = append(mainStmts, fmt.Sprintf("令O%d = （新建%s）", c, n), fmt.Sprintf("（显示：O%d 之 名、以O%d（叫））", c, c))
					expDisp = append(expDisp, fmt.Sprintf("%s 叫>%s", n, md.call(home.Funcs[0].Name, 0)))
				}
			} else {
				mainStmts = append(mainStmts, fmt.Sprintf("（显示：（%s））", n))
				expDisp = append(expDisp, md.call(n, 0))
			}
		}
		switch t.Draw(5) {
		case 1: // assignment to an imported (read-only) name: at top level, in a nested block, or inside a function of main
			if len(vis) > 0 {
				target := vis[t.Draw(len(vis))]
				switch t.Draw(3) {
				case 0:
					mainStmts = append(mainStmts, fmt.Sprintf("%s = 1", target))
				case 1:
					mainStmts = append(mainStmts, "如果真：", fmt.Sprintf("\t如果真：\n\t\t%s = 1", target))
				case 2:
					mainStmts = append([]string{fmt.Sprintf("如何主改写？\n\t%s = 1\n\t输出“改了”\n", target)}, mainStmts...)
					mainStmts = append(mainStmts, "（显示：（主改写））")
				}
				expCode = 44
			}
		case 2: // a name that exists in an imported module but was not in the selective list
			for _, imp := range main.Imports {
				dep, ok := byName[imp.Target]
				if !ok || imp.Items == nil {
					continue
				}
				hidden := ""
				for _, ex := range exportsOf(dep) {
					if _, vis := visible[ex]; !vis && !strings.HasSuffix(ex, "型") {
						hidden = ex
						break
					}
				}
				if hidden != "" {
					mainStmts = append(mainStmts, fmt.Sprintf("（显示：（%s））", hidden))
					expCode = 42
					break
				}
			}
		}
		if expCode == 0 {
			mainStmts = append(mainStmts, "输出“完”")
		}
	}
	// sources
	w := zsim.NewWorld(t)
	d := zsim.NewDisk(w)
	for _, m := range sc.Mods {
		m.Source = c15Source(m, false, nil)
		switch {
		case m.Missing:
		case m.Damage == "directory-in-place-of-file":
			d.MkdirAll(m.Path)
		case m.Damage == "not-utf8":
			d.Put(m.Path, append([]byte(m.Source), 0xD6, 0xD0, '\n'))
		default:
			d.Put(m.Path, []byte(m.Source))
		}
	}
	main.Source = c15Source(main, true, mainStmts)
	d.Put(main.Path, []byte(main.Source))
	if t.Draw(4) == 0 {
		enableFaults(t, d, &sc.Faults, []string{zsim.FStatEACCES, zsim.FOpenEACCES, zsim.FOpenEMFILE, zsim.FOpenVanished, zsim.FReadEIO, zsim.FReadShort})
	}
	w.MapMode = zsim.MapTape // import-all order is a tape decision too
	w.Enter()
	res := runFile(w, newInterp(), main.Path, nil)
	w.Leave()
	out.Faults = w.Faults
	out.Trace = w.Trace()
	sc.Got = res.String()
	sc.Expected = fmt.Sprintf("display=%q code=%d", expDisp, expCode)
	sc.Shape = c15Shape(sc)
	out.Keys = []string{sc.Shape}
	fail := func(sig, detail string) *hlib.Outcome {
		out.Sig = sig
		if i := strings.LastIndex(sig, ":"); i >= 0 {
			out.Symptom = sig[i+1:] // the graph-shape class may simplify while shrinking
		}
		out.Detail = detail + "\n  expected: " + sc.Expected + "\n  got: " + sc.Got
		return out
	}
	if res.Panic != "" {
		return fail("panic:"+c10PanicSite(w), "Go panic: "+res.Panic)
	}
	faulted := false
	for kf, v := range w.Faults {
		if v > 0 && kf != "disk."+zsim.FReadShort {
			faulted = true
		}
	}
	class := c15Class(sc, md)
	if faulted {
		// any documented error is fine for a faulted load; silently succeeding is not,
		// unless the fault hit nothing that mattered (then the outcome must be the expected one)
		if res.Err == "" && (strings.Join(res.Display, "\n") != strings.Join(expDisp, "\n") || expCode != 0) {
			return fail(class+":fault-ignored", "an I/O fault hit a module load, the program nevertheless completed with a different trace")
		}
		return out
	}
	gotCode := c15ErrCode(res.Err)
	if expCode == 0 {
		if res.Err != "" {
			return fail(fmt.Sprintf("%s:unexpected-error-%d", class, gotCode), "the reference loader expects success")
		}
		if strings.Join(res.Display, "\n") != strings.Join(expDisp, "\n") {
			return fail(class+":"+c15DiffKind(res.Display, expDisp), "marker / call trace differs from the reference loader")
		}
		if res.Result != "*value.String:完" {
			return fail(class+":wrong-result", "main's result differs")
		}
		return out
	}
	if res.Err == "" {
		if expCode == 63 {
			return fail(class+":cycle-not-reported", "the import graph has a cycle; the run completed without a circular-dependency error")
		}
		return fail(fmt.Sprintf("%s:error-%d-not-reported", class, expCode), "the reference loader expects an error")
	}
	if expCode == 44 && gotCode == 0 && strings.Contains(res.Err, "此变量的值不允许更改") {
		gotCode = 44 // raised inside a function: Function.Exec re-wraps the error and drops its code, the assignment is still refused
	}
	if expCode > 0 && gotCode != expCode {
		return fail(fmt.Sprintf("%s:error-%d-instead-of-%d", class, gotCode, expCode), "wrong error class")
	}
	if strings.Join(res.Display, "\n") != strings.Join(expDisp, "\n") {
		return fail(class+":"+c15DiffKind(res.Display, expDisp)+"-before-error", "marker trace before the error differs from the reference loader")
	}
	return out
}

// c15Subset draws a non-empty subset of xs in a drawn order (zero tape = the first element only).
func c15Subset(t *zsim.Tape, xs []string) []string {
	var out []string
	for i, x := range xs {
		if i == 0 || t.Draw(2) == 1 {
			out = append(out, x)
		}
	}
	if len(out) > 1 && t.Draw(4) == 3 {
		out = out[1:] // a list that does not start with the first export
	}
	switch t.Draw(6) {
	case 4: // a name the module does not export is silently skipped: the others are imported
		out = append(out, "无此名")
	case 5: // nothing of what is listed exists: nothing is imported
		out = []string{"无此名", "也无此名"}
	}
	for i := len(out) - 1; i > 0; i-- {
		j := i - t.Draw(i+1)
		out[i], out[j] = out[j], out[i]
	}
	return out
}

func c15ErrCode(e string) int {
	i := strings.LastIndex(e, "运行异常[")
	if i < 0 {
		if strings.Contains(e, "语法错误") {
			return -2
		}
		if strings.Contains(e, "IO错误") || strings.Contains(e, "读取") {
			return -3
		}
		return 0
	}
	var c int
	fmt.Sscanf(e[i+len("运行异常["):], "%d", &c)
	return c
}

func c15DiffKind(got, exp []string) string {
	count := func(xs []string) map[string]int {
		m := map[string]int{}
		for _, x := range xs {
			if strings.HasPrefix(x, "body ") {
				m[x]++
			}
		}
		return m
	}
	g, e := count(got), count(exp)
	for k, v := range g {
		if v > 1 && e[k] <= 1 {
			return "body-ran-twice"
		}
	}
	for k := range e {
		if g[k] == 0 {
			return "body-not-run"
		}
	}
	gb, eb := []string{}, []string{}
	for _, x := range got {
		if strings.HasPrefix(x, "body ") || x == "main" {
			gb = append(gb, x)
		}
	}
	for _, x := range exp {
		if strings.HasPrefix(x, "body ") || x == "main" {
			eb = append(eb, x)
		}
	}
	if strings.Join(gb, ",") != strings.Join(eb, ",") {
		return "body-order"
	}
	return "call-result"
}

// c15Class names the graph-shape class of the scenario for signatures.
func c15Class(sc *c15Scenario, md *c15Model) string {
	self, cyc, nested, sel := false, false, false, false
	for _, m := range append(append([]*c15Mod{}, sc.Mods...), sc.Main) {
		for _, imp := range m.Imports {
			if imp.Target == m.Name {
				self = true
			}
			if strings.Contains(imp.Target, "-") {
				nested = true
			}
			if imp.Items != nil {
				sel = true
			}
		}
	}
	cyc = md.errCode == 63
	switch {
	case self && cyc:
		return "self-import"
	case cyc:
		return "cycle"
	}
	parts := []string{"acyclic"}
	if nested {
		parts = append(parts, "nested")
	}
	if sel {
		parts = append(parts, "selective")
	}
	return strings.Join(parts, "+")
}

// c15Shape is the canonical form of the dependency graph (for distinct counting).
func c15Shape(sc *c15Scenario) string {
	var parts []string
	for _, m := range append([]*c15Mod{sc.Main}, sc.Mods...) {
		var is []string
		for _, imp := range m.Imports {
			s := imp.Target
			if imp.Items != nil {
				s += fmt.Sprintf("[%d]", len(imp.Items))
			}
			is = append(is, s)
		}
		x := m.Name + "→" + strings.Join(is, ",")
		if m.Missing {
			x += "(missing)"
		}
		if m.Bare {
			x += "(bare)"
		}
		if m.Damage != "" {
			x += "(" + m.Damage + ")"
		}
		for _, f := range m.Funcs {
			if f.Callee != "" {
				x += "{" + f.Name + ">" + f.Callee + "}"
			}
		}
		parts = append(parts, x)
	}
	return strings.Join(parts, ";") + fmt.Sprintf("|%v", sc.Faults)
}
