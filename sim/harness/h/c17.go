package main

// C17 — source files are decoded losslessly or rejected. The file lives on the simulated
// disk; in the `stream` profile the length of every read and an EIO at read k are tape
// decisions, in the `regular` profile reads are full and nothing fails.

import (
	"bytes"
	"fmt"
	"strings"
	"unicode/utf16"
	"unicode/utf8"

	zio "github.com/DemoHn/Zn/pkg/io"
	"github.com/DemoHn/Zn/pkg/syntax"
	"github.com/DemoHn/Zn/pkg/syntax/zh"
	"github.com/DemoHn/Zn/znverif/hlib"
	"github.com/DemoHn/Zn/znverif/zsim"
)

func init() { registry["C17"] = runC17 }

type c17Scenario struct {
	Profile    string `json:"profile"`
	Target     string `json:"target"`
	Class      string `json:"file_class"`
	Size       int    `json:"size_bytes"`
	Corruption string `json:"corruption,omitempty"`
	CorruptAt  int    `json:"corrupt_at,omitempty"`
	HeadHex    string `json:"head_hex"`
	AroundHex  string `json:"around_boundary_hex,omitempty"`
	Reads      []int  `json:"read_lengths,omitempty"`
	Block      int    `json:"block_size,omitempty"`
	AsModule   bool   `json:"file_is_an_imported_module,omitempty"`
	Lines      int    `json:"program_lines,omitempty"`
	Got        string `json:"got,omitempty"`
	Want       string `json:"want,omitempty"`
}

var c17Chars = []string{"a", "é", "中", "😀", "�", "\n", "𠀀", "ß", "\uFEFF", "\U0010FFFF", "\u07FF", "\uFFFF", "\U00010000"}
var c17Counts = []int{0, 1, 2, 3, 5, 40, 1023, 1024, 1364, 1365, 1366, 2047, 2048, 2730, 2731, 4093, 4094, 4095, 4096, 4097, 8191, 8192, 8193, 12287, 12288, 13000, 16383, 16384, 16385, 21845, 21846, 32767, 32768, 32769, 65535, 65536, 65537}

// caller-chosen block sizes for FileStream.Read(n): shorter than a character, around the
// default block, larger than most files
var c17Blocks = []int{1, 2, 3, 4, 5, 7, 8, 13, 64, 1000, 4095, 4096, 4097, 8192, 65536}

type corruption struct {
	name string
	b    []byte
}

var c17Corruptions = []corruption{
	{"stray-continuation", []byte{0x80}},
	{"lone-lead", []byte{0xE4}},
	{"truncated-sequence", []byte{0xE4, 0xB8}},
	{"overlong", []byte{0xC0, 0x80}},
	{"surrogate", []byte{0xED, 0xA0, 0x80}},
	{"0xFF", []byte{0xFF}},
	{"gbk-text", []byte{0xD6, 0xD0, 0xCE, 0xC4}},
	{"4byte-truncated", []byte{0xF0, 0x9F, 0x98}},
	{"beyond-U+10FFFF", []byte{0xF4, 0x90, 0x80, 0x80}},
	{"overlong-3byte", []byte{0xE0, 0x80, 0xAF}},
	{"surrogate-low", []byte{0xED, 0xB0, 0x80}},
	{"5byte-lead", []byte{0xF8, 0x88, 0x80, 0x80, 0x80}},
}

func genText(t *zsim.Tape) (string, string) {
	var sb strings.Builder
	var cls []string
	// alignment shifter
	sb.WriteString(strings.Repeat("x", t.Draw(4)))
	nseg := 1 + t.Draw(4)
	for i := 0; i < nseg; i++ {
		ch := c17Chars[t.Draw(len(c17Chars))]
		n := c17Counts[t.Draw(len(c17Counts))]
		if sb.Len()+n*len(ch) > 300000 {
			n = 3
		}
		sb.WriteString(strings.Repeat(ch, n))
		cls = append(cls, fmt.Sprintf("%dx%d", len(ch), n))
	}
	return sb.String(), strings.Join(cls, "+")
}

// genProgram builds an n-line program whose line i displays i, padded with comments made
// of multi-byte characters so that its size lands around read-block boundaries.
func genProgram(t *zsim.Tape) (string, int) {
	n := 2 + t.Draw(6)
	var sb strings.Builder
	for i := 1; i <= n; i++ {
		pad := c17Counts[t.Draw(len(c17Counts))]
		if pad > 5000 {
			pad = 4096 - t.Draw(8)
		}
		if pad > 0 {
			ch := c17Chars[t.Draw(4)] // no U+FFFD / newline here by default
			if t.Draw(6) == 5 {
				ch = "�"
			}
			fmt.Fprintf(&sb, "注：%s\n", strings.Repeat(ch, pad/len(ch)+1))
		}
		fmt.Fprintf(&sb, "（显示：“L%d”）\n", i)
	}
	return sb.String(), n
}

func hexAround(b []byte, at, span int) string {
	lo, hi := at-span, at+span
	if lo < 0 {
		lo = 0
	}
	if hi > len(b) {
		hi = len(b)
	}
	return fmt.Sprintf("[%d:%d] % x", lo, hi, b[lo:hi])
}

func refDecode(b []byte) ([]rune, bool) {
	if !utf8.Valid(b) {
		return nil, false
	}
	rs := []rune(string(b))
	if len(rs) > 0 && rs[0] == 0xFEFF {
		rs = rs[1:]
	}
	return rs, true
}

func runC17(t *zsim.Tape, cfg *hlib.Config) *hlib.Outcome {
	sc := &c17Scenario{}
	out := &hlib.Outcome{Scenario: sc}
	sc.Profile = "regular"
	switch t.Draw(5) {
	case 1, 2:
		sc.Profile = "stream"
	case 4:
		return runC17Conc(t, cfg)
	}
	sc.Target = []string{"FileStream.ReadAll", "FileStream.ReadAll", "LoadFile.Execute", "ByteStream.ReadAll", "FileStream.Read(n)"}[t.Draw(5)]
	if sc.Target == "LoadFile.Execute" && t.Draw(3) == 2 {
		// the file under test is an imported MODULE of a one-line main file: module sources go
		// through the same promise as the file named on the command line
		sc.AsModule = true
	}
	if sc.Target == "FileStream.Read(n)" {
		// the public block-wise API with a caller-chosen block size ("all read block sizes")
		sc.Block = c17Blocks[t.Draw(len(c17Blocks))]
	}
	var data []byte
	if sc.Target == "LoadFile.Execute" {
		src, n := genProgram(t)
		data = []byte(src)
		sc.Lines = n
		sc.Class = "program"
	} else {
		s, cls := genText(t)
		data = []byte(s)
		sc.Class = cls
	}
	// BOMs
	switch t.Draw(6) {
	case 1:
		data = append([]byte{0xEF, 0xBB, 0xBF}, data...)
		sc.Class = "BOM+" + sc.Class
	case 2:
		// a second U+FEFF is an ordinary character: decoders must keep it. For whole programs the
		// lexer decides what that character means; the oracle below asks the parser itself
		// whether the decoded text (one mark removed) is a program at all.
		data = append([]byte{0xEF, 0xBB, 0xBF, 0xEF, 0xBB, 0xBF}, data...)
		sc.Class = "BOM+BOM+" + sc.Class
	}
	// corruption
	if t.Draw(3) == 2 {
		c := c17Corruptions[t.Draw(len(c17Corruptions))]
		pos := 0
		switch t.Draw(5) {
		case 0:
			pos = 0
		case 1:
			pos = len(data)
		case 2:
			pos = len(data) / 2
		case 3:
			pos = 4096 - t.Draw(6)
		case 4:
			pos = t.Draw(len(data) + 1)
		}
		if pos > len(data) {
			pos = len(data)
		}
		// keep the corruption on a character boundary so that it is the only defect
		for pos > 0 && pos < len(data) && !utf8.RuneStart(data[pos]) {
			pos--
		}
		if sc.Target == "LoadFile.Execute" {
			// place it at the start of a line, inside a comment of its own
			idx := bytes.LastIndexByte(data[:pos], '\n')
			pos = idx + 1
			ins := append([]byte("注："), c.b...)
			ins = append(ins, '\n')
			data = append(append(append([]byte{}, data[:pos]...), ins...), data[pos:]...)
			pos += len("注：")
		} else {
			data = append(append(append([]byte{}, data[:pos]...), c.b...), data[pos:]...)
		}
		if !utf8.Valid(data) {
			sc.Corruption = c.name
			sc.CorruptAt = pos
		}
	}
	// the whole file saved in another encoding ("Unicode" of Windows editors): UTF-16 / UTF-32
	// with their own byte-order marks — never valid UTF-8 for a non-empty text, must be rejected
	if x := t.Draw(14); x >= 11 && len(data) > 0 && utf8.Valid(data) {
		rs := []rune(string(data))
		var enc []byte
		switch x {
		case 11:
			enc = []byte{0xFF, 0xFE}
			for _, u := range utf16.Encode(rs) {
				enc = append(enc, byte(u), byte(u>>8))
			}
			sc.Corruption = "utf16le-with-bom"
		case 12:
			enc = []byte{0xFE, 0xFF}
			for _, u := range utf16.Encode(rs) {
				enc = append(enc, byte(u>>8), byte(u))
			}
			sc.Corruption = "utf16be-with-bom"
		case 13:
			enc = []byte{0xFF, 0xFE, 0x00, 0x00}
			for _, r := range rs {
				enc = append(enc, byte(r), byte(r>>8), byte(r>>16), 0)
			}
			sc.Corruption = "utf32le-with-bom"
		}
		if !utf8.Valid(enc) {
			data, sc.CorruptAt = enc, 0
			sc.Class = "foreign-encoding:" + sc.Class
		} else {
			sc.Corruption = ""
		}
	}
	if sc.Block > 0 && sc.Block < 64 && len(data) > 16384 {
		sc.Block = 4095 // byte-sized blocks over a large file only cost time
	}
	sc.Size = len(data)
	sc.HeadHex = hexAround(data, 0, 12)
	if len(data) > 4096 {
		sc.AroundHex = hexAround(data, 4096, 6)
	}
	want, valid := refDecode(data)

	w := zsim.NewWorld(t)
	d := zsim.NewDisk(w)
	srcPath := "/src/main.zn"
	if sc.AsModule {
		srcPath = "/src/被测.zn"
		d.Put("/src/main.zn", []byte("导入“被测”\n"))
	}
	d.Put(srcPath, data)
	eioPlanned := false
	if sc.Profile == "stream" {
		switch t.Draw(6) {
		case 4, 5:
			// the source is a named pipe / process substitution: stat reports size 0
			d.PutPipe(srcPath, data)
			sc.Class += "+pipe(stat size 0)"
		case 3:
			// a regular file of a synthetic file system: stat says one page (or nothing), whatever it holds
			sz := []int64{4096, 0, 1}[t.Draw(3)]
			d.PutSynthetic(srcPath, data, sz)
			sc.Class += fmt.Sprintf("+synthetic(stat size %d)", sz)
		}
	}
	if sc.Profile == "stream" {
		d.ReadMode = 1
		d.Enabled[zsim.FReadShort] = true
		if t.Draw(5) == 4 {
			// a writer that trickles: EVERY read delivers 1-12 bytes, so a source of a few hundred
			// kilobytes takes tens of thousands of reads
			d.ReadMode = 2
			sc.Class += "+trickle"
		}
		if t.Draw(4) == 3 {
			d.Enabled[zsim.FReadEIO] = true
			d.Rate = 4
			d.MaxFaults = 1
			eioPlanned = true
		}
	}
	w.Enter()
	defer w.Leave()
	out.Keys = []string{fmt.Sprintf("%s|%s|%s|%s|eio=%v|sz%d|b%d|m%v", sc.Profile, sc.Target, sc.Class, sc.Corruption, eioPlanned, len(data)%4096%7, sc.Block, sc.AsModule)}

	var gotRunes []rune
	var gotErr error
	var disp []string
	var panicked string
	switch sc.Target {
	case "FileStream.ReadAll":
		func() {
			defer func() {
				if p := recover(); p != nil {
					panicked = fmt.Sprint(p)
				}
			}()
			fs, err := zio.NewFileStream("/src/main.zn")
			if err != nil {
				gotErr = err
				return
			}
			gotRunes, gotErr = fs.ReadAll()
		}()
	case "FileStream.Read(n)":
		func() {
			defer func() {
				if p := recover(); p != nil {
					panicked = fmt.Sprint(p)
				}
			}()
			fs, err := zio.NewFileStream("/src/main.zn")
			if err != nil {
				gotErr = err
				return
			}
			// every call consumes at least one byte until end of input (the simulated disk
			// never returns an empty short read), so size+8 calls see everything; stop early
			// once the whole text and three further empty blocks have been seen (valid input only:
			// on invalid input the loop runs until the error or the call budget)
			empties := 0
			for i := 0; i < len(data)+8 && empties < 3; i++ {
				rs, err := fs.Read(sc.Block)
				if err != nil {
					gotErr = err
					return
				}
				gotRunes = append(gotRunes, rs...)
				if valid && len(rs) == 0 && len(gotRunes) >= len(want) {
					empties++
				}
			}
		}()
	case "ByteStream.ReadAll":
		func() {
			defer func() {
				if p := recover(); p != nil {
					panicked = fmt.Sprint(p)
				}
			}()
			gotRunes, gotErr = zio.NewByteStream(data).ReadAll()
		}()
		// ByteStream keeps a BOM (it is for in-memory text): reference without stripping
		if valid {
			want = []rune(string(data))
		}
	case "LoadFile.Execute":
		res := runFile(w, newInterp(), "/src/main.zn", nil)
		disp = res.Display
		panicked = res.Panic
		if res.Err != "" {
			gotErr = fmt.Errorf("%s", res.Err)
		}
	}
	out.Faults = w.Faults
	out.Trace = w.Trace()
	eioFired := w.Faults["disk."+zsim.FReadEIO] > 0
	fail := func(sig, detail string) *hlib.Outcome {
		out.Sig = sig
		out.Detail = detail
		return out
	}
	if panicked != "" {
		return fail(sc.Target+":panic", "Go panic: "+panicked)
	}
	if eioFired {
		if gotErr == nil {
			return fail(sc.Target+":read-error-swallowed", "a read returned EIO but the caller got no error (a prefix was accepted as the whole file)")
		}
		return out
	}
	if sc.Target == "LoadFile.Execute" {
		if !valid {
			if gotErr == nil {
				sc.Got = strings.Join(disp, ",")
				return fail("LoadFile:invalid-utf8-executed:"+sc.Corruption,
					fmt.Sprintf("file is not valid UTF-8 (%s at byte %d) but LoadFile(...).Execute succeeded, displaying %v", sc.Corruption, sc.CorruptAt, disp))
			}
			return out
		}
		// what was decoded must be what gets parsed: if the parser itself refuses the decoded text
		// (after ONE byte-order mark has been removed), nothing may have been executed
		if _, perr := syntax.NewParser(want, zh.NewParserZH()).Compile(); perr != nil {
			if gotErr == nil {
				sc.Got = strings.Join(disp, ",")
				return fail("LoadFile:altered-program-executed", fmt.Sprintf("the decoded text of the file (%s) is not a program — the parser refuses it: %s — yet LoadFile(...).Execute ran something and displayed %v: what ran is not what the file holds", sc.Class, firstLines(perr.Error(), 2), disp))
			}
			return out
		}
		if gotErr != nil {
			sc.Got = gotErr.Error()
			return fail("LoadFile:valid-rejected", "valid UTF-8 program was rejected: "+firstLines(gotErr.Error(), 6))
		}
		if len(disp) != sc.Lines {
			sc.Got = strings.Join(disp, ",")
			cause := "other"
			if bytes.Contains(data, []byte("�")) {
				cause = "U+FFFD"
			} else if sc.Profile == "stream" {
				cause = "short-read"
			}
			return fail("LoadFile:executed-truncated:"+cause,
				fmt.Sprintf("a valid %d-line program displayed only %d lines (%v) and reported no error: a silently truncated program was executed", sc.Lines, len(disp), disp))
		}
		for i, l := range disp {
			if l != fmt.Sprintf("L%d", i+1) {
				return fail("LoadFile:altered", fmt.Sprintf("display line %d is %q", i+1, l))
			}
		}
		// a new version of the file is put in place — same path, same size, same timestamp (the
		// simulated disk never changes a modification time: cp -p, rsync -a, a release with
		// normalised timestamps) — and loaded again in the same process: it is the NEW content that
		// must be decoded, or rejected if it is not UTF-8
		if sc.Profile == "regular" && t.Draw(3) == 2 {
			at := bytes.Index(data, []byte("“L1”"))
			if at < 0 {
				return out
			}
			data2 := append([]byte{}, data...)
			at += len("“")
			damaged := t.Draw(2) == 1
			if damaged {
				data2[at] = 0xFF
			} else {
				data2[at] = 'K'
			}
			d.Put(srcPath, data2)
			sc.Class += fmt.Sprintf("+redeployed(same size, damaged=%v)", damaged)
			w.Out.Reset()
			res2 := runFile(w, newInterp(), "/src/main.zn", nil)
			switch {
			case res2.Panic != "":
				return fail("LoadFile:panic", "Go panic on the second load: "+res2.Panic)
			case damaged && res2.Err == "":
				return fail("LoadFile:redeployed-invalid-utf8-executed", fmt.Sprintf("the file was replaced by one of the same size that is not valid UTF-8 (0xFF at byte %d); the second load executed something and displayed %v", at, res2.Display))
			case !damaged && res2.Err != "":
				return fail("LoadFile:redeployed-valid-rejected", "second load of the replaced (valid) file failed: "+firstLines(res2.Err, 4))
			case !damaged && (len(res2.Display) == 0 || res2.Display[0] != "K1"):
				return fail("LoadFile:redeployed-old-content-executed", fmt.Sprintf("the file was replaced by one of the same size whose first line displays K1; the second load displayed %v", res2.Display))
			}
		}
		return out
	}
	// stream decoders
	name := strings.Split(sc.Target, ".")[0]
	if sc.Target == "FileStream.Read(n)" {
		name = "FileStream.Read(n)"
	}
	if !valid {
		if gotErr == nil {
			sc.Got = fmt.Sprintf("%d runes, no error", len(gotRunes))
			return fail(name+":invalid-utf8-accepted:"+sc.Corruption,
				fmt.Sprintf("input is not valid UTF-8 (%s at byte %d of %d) but ReadAll returned %d runes and no error", sc.Corruption, sc.CorruptAt, len(data), len(gotRunes)))
		}
		return out
	}
	if gotErr != nil {
		sc.Got = gotErr.Error()
		return fail(name+":valid-rejected", "valid UTF-8 input rejected: "+gotErr.Error())
	}
	if string(gotRunes) != string(want) {
		sc.Got = fmt.Sprintf("%d runes", len(gotRunes))
		sc.Want = fmt.Sprintf("%d runes", len(want))
		if len(gotRunes) < len(want) && string(gotRunes) == string(want[:len(gotRunes)]) {
			cause := "other"
			if want[len(gotRunes)] == utf8.RuneError {
				cause = "U+FFFD"
			} else if sc.Profile == "stream" {
				cause = "short-read"
			}
			return fail(name+":valid-truncated:"+cause,
				fmt.Sprintf("valid UTF-8 of %d runes decoded to its first %d runes only, no error (next rune U+%04X)", len(want), len(gotRunes), want[len(gotRunes)]))
		}
		if len(gotRunes) == len(want)+1 && gotRunes[0] == 0xFEFF {
			return fail(name+":bom-not-stripped", "leading BOM not removed")
		}
		if len(gotRunes)+1 == len(want) && want[0] == 0xFEFF && string(gotRunes) == string(want[1:]) {
			return fail(name+":bom-double-stripped", "a second BOM (a legitimate ZERO WIDTH NO-BREAK SPACE) was removed too")
		}
		return fail(name+":altered", fmt.Sprintf("decoded text differs from the reference (%d vs %d runes)", len(gotRunes), len(want)))
	}
	return out
}
