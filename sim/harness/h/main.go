// h is the one harness binary: `h <property> run|replay ...`. It is built inside the
// transformed scratch copy of DemoHn/Zn, never against /repo directly.
package main

import (
	"fmt"
	"os"

	"github.com/DemoHn/Zn/znverif/hlib"
)

var registry = map[string]hlib.RunFn{}

func main() {
	if len(os.Args) < 3 && !(len(os.Args) == 2 && (os.Args[1] == "C16ref" || os.Args[1] == "C11ref" || os.Args[1] == "C16list")) {
		fmt.Fprintln(os.Stderr, "usage: h <property> run|replay [flags]")
		os.Exit(2)
	}
	if os.Args[1] == "C16ref" {
		refMain()
		return
	}
	if os.Args[1] == "C16list" {
		c16ListMain()
		return
	}
	if os.Args[1] == "C11ref" {
		c11RefMain()
		return
	}
	fn, ok := registry[os.Args[1]]
	if !ok || fn == nil {
		fmt.Fprintln(os.Stderr, "unknown property", os.Args[1])
		os.Exit(2)
	}
	os.Exit(hlib.Main(os.Args[1], os.Args[2:], fn))
}
