package main

// C16 — executions are isolated from one another.
//
// Part A (histories): P1;…;Pn;Q executed one after another in this long-lived process
// (one or several Interpreter objects, each execution with its own simulated disk); the
// reference for Q is Q executed alone in a freshly exec'ed OS process ("restart").
//
// Part B (schedules): N simulated callers enter one ZnPlaygroundHandler / ZnHttpHandler
// with one shared interpreter under the seeded scheduler (pre-emption at every function
// entry of pkg/exec, pkg/runtime, pkg/server); every response must equal the response of the
// same request served alone, and the lockset oracle over T4 access records must see no
// unprotected shared write.

import (
	"bytes"
	"encoding/json"
	"fmt"
	"net/http"
	"net/http/httptest"
	"os"
	osexec "os/exec"
	"sort"
	"strings"

	"github.com/DemoHn/Zn/pkg/exec"
	"github.com/DemoHn/Zn/pkg/server"
	"github.com/DemoHn/Zn/znverif/hlib"
	"github.com/DemoHn/Zn/znverif/zsim"
)

func init() {
	registry["C16"] = runC16
	registry["C16ref"] = nil // handled in main via refMain
}

// execSpec is one execution: a program (script or file project) on its own disk.
type execSpec struct {
	ID       string            `json:"id"`
	Mode     string            `json:"mode"` // script | file
	Main     string            `json:"main"`
	Files    map[string]string `json:"files,omitempty"`
	VarInput string            `json:"var_input,omitempty"` // evaluated by ExecVarInputText before the execution
	// Mode http: Main is the entry file of a ZnHttpHandler that serves this one request
	ReqURL     string      `json:"request_url,omitempty"`
	ReqHeaders [][2]string `json:"request_headers,omitempty"`
	ReqBody    string      `json:"request_body,omitempty"`
	// Repeat > 1: the execution is performed that many times in a row (a long-running server
	// sees the same request hundreds of times)
	Repeat int `json:"repeat,omitempty"`
	// generated programs (exc generator): which dynamic invocation of the probe function fails,
	// and how (0 = none); directories to create on the execution's disk
	ProbeN    int      `json:"probe_fails_at,omitempty"`
	ProbeKind string   `json:"probe_fails_as,omitempty"`
	Dirs      []string `json:"dirs,omitempty"`
}

// c16Generated: a whole program of the exc generator (1-3 modules: functions, classes with
// constructors and methods, custom exception classes, handlers, loops, deep recursion, imports
// of modules and of 《@探针》) as one execution of a history. As a polluter it may die at a drawn
// probe invocation ("leaving calls unfinished through errors"); as a victim it is any
// deterministic program: whatever it displays after other programs of the process it must
// display when run alone after a restart.
func c16Generated(t *zsim.Tape) *execSpec {
	p := genExcProgram(t)
	excRender(t, p)
	sp := &execSpec{ID: "generated-program", Mode: "file", Files: map[string]string{}, Dirs: []string{excDirPath}}
	for _, m := range p.Mods {
		if m.Name == "主" {
			sp.Main = m.Source
		} else {
			sp.Files[modFile(m.Name)] = m.Source
		}
	}
	if t.Draw(3) == 1 {
		if base := refRun(p, xPlan{}); base.Probes > 0 {
			sp.ProbeN = 1 + t.Draw(base.Probes)
			sp.ProbeKind = []string{"signal", "goerror", "runtime", "custom"}[t.Draw(4)]
			sp.ID = "generated-program-dying"
		}
	}
	return sp
}

// one ZnHttpHandler per interpreter object, as in a server: requests of a history that reuse
// the interpreter also go through the same handler
var c16Handlers = map[*exec.Interpreter]*server.ZnHttpHandler{}

func runSpec(w *zsim.World, in *exec.Interpreter, sp *execSpec) ExecResult {
	d := zsim.NewDisk(w) // every execution sees its own disk content
	for p, s := range sp.Files {
		d.Put(p, []byte(s))
	}
	for _, dir := range sp.Dirs {
		d.MkdirAll(dir)
	}
	w.Ext["probe"] = &probeState{plan: xPlan{N: sp.ProbeN, Kind: sp.ProbeKind}}
	var inputs map[string]rElement
	if sp.VarInput != "" {
		var res ExecResult
		res = execute(w, func() (rElement, error) {
			m, err := exec.ExecVarInputText(sp.VarInput)
			inputs = m
			return strResult("inputs"), err
		})
		if res.Err != "" || res.Panic != "" {
			return res
		}
	}
	if sp.Mode == "file" {
		d.Put("/proj/main.zn", []byte(sp.Main))
		return runFile(w, in, "/proj/main.zn", inputs)
	}
	if sp.Mode == "http" {
		d.Put("/srv/entry.zn", []byte(sp.Main))
		h := c16Handlers[in]
		if h == nil {
			h = server.NewZnHttpHandler(in, "/srv/entry.zn")
			c16Handlers[in] = h
		}
		req := httptest.NewRequest("POST", sp.ReqURL, strings.NewReader(sp.ReqBody))
		for _, kv := range sp.ReqHeaders {
			req.Header.Add(kv[0], kv[1])
		}
		rec := httptest.NewRecorder()
		res := execute(w, func() (rElement, error) { h.ServeHTTP(rec, req); return strResult("served"), nil })
		res.Result = fmt.Sprintf("%d %s", rec.Code, rec.Body.String())
		return res
	}
	return runScript(w, in, sp.Main, inputs)
}

// histSpec is a whole history: executions 0..n-1 are polluters, the last one is the victim.
type histSpec struct {
	Execs  []*execSpec `json:"execs"`
	Shared []bool      `json:"reuse_interpreter"`
}

// refMain: `h C16ref` — plays one history (JSON on stdin) in this fresh OS process, which
// is "the long-lived process" of that history, and prints the outcome of its last execution.
// A history of length one is the victim alone after a restart.
func refMain() {
	var hs histSpec
	if err := json.NewDecoder(os.Stdin).Decode(&hs); err != nil {
		fmt.Fprintln(os.Stderr, err)
		os.Exit(2)
	}
	w := zsim.NewWorld(zsim.NewTape(1))
	w.Enter()
	in := newInterp(probeLib())
	var res ExecResult
	for i, sp := range hs.Execs {
		if i < len(hs.Shared) && !hs.Shared[i] {
			in = newInterp(probeLib())
		}
		for r := 0; r < sp.Repeat || r == 0; r++ {
			w.Out.Reset()
			res = runSpec(w, in, sp)
		}
	}
	w.Leave()
	json.NewEncoder(os.Stdout).Encode(res)
}

var refCache = map[string]string{}
var refProcs int

// playInFreshProcess runs a history in a newly exec'ed copy of this binary.
func playInFreshProcess(hs *histSpec, cache bool) (string, error) {
	b, _ := json.Marshal(hs)
	key := hlib.Hash(string(b))
	if cache {
		if r, ok := refCache[key]; ok {
			return r, nil
		}
	}
	cmd := osexec.Command(os.Args[0], "C16ref")
	cmd.Stdin = bytes.NewReader(b)
	var out, errb bytes.Buffer
	cmd.Stdout, cmd.Stderr = &out, &errb
	if err := cmd.Run(); err != nil {
		return "", fmt.Errorf("child process failed: %v: %s", err, tailOf(errb.String(), 1500))
	}
	var res ExecResult
	if err := json.Unmarshal(out.Bytes(), &res); err != nil {
		return "", fmt.Errorf("child process output: %v: %q", err, out.String())
	}
	refProcs++
	if cache {
		refCache[key] = res.String()
	}
	return res.String(), nil
}

func tailOf(s string, n int) string {
	if len(s) > n {
		return s[len(s)-n:]
	}
	return s
}

// ------------------------------------------------------------------ catalogue

var c16Mutators = []string{"自增", "自减", "转换数值", "新增", "添加", "前增", "后增", "左移", "右移", "合并", "交换", "写入", "移除", "加", "拼接"}

func c16Globals() []string {
	var gs []string
	for k := range exec.GlobalValues { // sorted below: never a decision source
		gs = append(gs, k)
	}
	sort.Strings(gs)
	return gs
}

func c16ModuleProject(variant int) *execSpec {
	return &execSpec{ID: fmt.Sprintf("project-v%d", variant), Mode: "file",
		Main:  "导入“工具”\n\n（显示：（帮手））\n输出“完”\n",
		Files: map[string]string{"/proj/工具.zn": fmt.Sprintf("如何帮手？\n\t输出“工具第%d版”\n", variant)}}
}

// c16Doc is a JSON configuration document of one of three sizes (about 5000, 1100 and 60
// bytes): the same size class always gives the byte-identical text, so that a later
// execution parses exactly what an earlier one parsed.
func c16Doc(class int) (string, string) {
	n := []int{90, 20, 0}[class]
	var items []string
	for i := 0; i < n; i++ {
		items = append(items, fmt.Sprintf(`{"path":"/api/v1/resource-%02d","limit":%d}`, i, 100+i))
	}
	return fmt.Sprintf(`{"name":"配置","retries":3,"routes":[%s]}`, strings.Join(items, ",")), []string{"large", "medium", "small"}[class]
}

// c16Results: calls of built-in methods / properties whose RESULT a program may go on to
// change in place (bound with 得到, which does not copy). kind selects the mutators that apply.
var c16Results = [][3]string{
	{"以【1，2，3】（寻找：9）", "num", "array.寻找-miss"},
	{"以【1，2，3】（寻找：2）", "num", "array.寻找-hit"},
	{"以【1，2，3】（包含：9）", "any", "array.包含"},
	{"以【3，1，2】（左移）", "num", "array.左移"},
	{"以【3，1，2】（右移）", "num", "array.右移"},
	{"以【】（左移）", "any", "array.左移-empty"},
	{"以【1，2】（合并：【3】）", "arr", "array.合并"},
	{"以【1，2】（添加：3）", "arr", "array.添加"},
	{"以【1，2】（后增：3）", "arr", "array.后增"},
	{"以【1，2】（前增：3）", "arr", "array.前增"},
	{"以【1，2】（交换：0、1）", "arr", "array.交换"},
	{"以【“a”，“b”】（拼接：“,”）", "txt", "array.拼接"},
	{"以“甲乙丙”（匹配：“丁”）", "any", "text.匹配"},
	{"以“甲乙丙”（匹配开头：“甲”）", "any", "text.匹配开头"},
	{"以“甲乙丙”（替换：“乙”、“丁”）", "txt", "text.替换"},
	{"以“a,b”（分隔：“,”）", "arr", "text.分隔"},
	{"以“甲乙丙”（取样：0、1）", "txt", "text.取样"},
	{"以“ 甲 ”（去除空格）", "txt", "text.去除空格"},
	{"以“ab”（转大写-英文）", "txt", "text.转大写"},
	{"以“12”（转换数值）", "num", "text.转换数值"},
	{"以“甲”（拼接：“乙”）", "txt", "text.拼接"},
	{"以“{#1}”（格式化：1）", "txt", "text.格式化"},
	{"以【“k” = 1】（读取：“无”）", "any", "dict.读取-miss"},
	{"以【“k” = 1】（读取：“k”）", "num", "dict.读取-hit"},
	{"以【“k” = 1】（写入：“j”、2）", "any", "dict.写入"},
	{"以【“k” = 1】（移除：“k”）", "any", "dict.移除"},
	{"以5（加：1）", "num", "number.加"},
	{"以5（减：1）", "num", "number.减"},
	{"以5（乘：2）", "num", "number.乘"},
	{"以5（除：2）", "num", "number.除"},
	{"以5.5（向下取整）", "num", "number.向下取整"},
	{"以5.5（向上取整）", "num", "number.向上取整"},
}

var c16ResultMutators = map[string][]string{
	"num": {"自增：1", "自减：2", "自增：0.5"},
	"arr": {"添加：9", "左移", "前增：9", "交换：0、1"},
	"txt": {"转换数值", "拼接：“x”"},
	"any": {"自增：1", "添加：9", "写入：“k”、5"},
}

func c16ResultPolluter(ei, mi int) *execSpec {
	e := c16Results[ei]
	ms := c16ResultMutators[e[1]]
	m := ms[mi%len(ms)]
	guard := "\n\n拦截异常：\n\t输出“挡住”\n"
	return &execSpec{ID: "method-result:" + e[2] + "." + strings.SplitN(m, "：", 2)[0], Mode: "script",
		Main: fmt.Sprintf("%s，得到果\n（显示：“先”、果）\n以果（%s）\n（显示：“后”、果）\n输出“污染者结束”%s", e[0], m, guard)}
}

// c16Response: a program that builds an HTTP响应 (the real class of pkg/common, exported by the
// library @HTTP) from one of three kinds of body and either changes its parts in place or only
// displays them.
func c16Response(body int, patch bool) *execSpec {
	b := []string{"“正文”", "【“a” = 1】", "5"}[body]
	kind := []string{"text", "json", "number"}[body]
	if patch {
		return &execSpec{ID: "http-response-patched:" + kind, Mode: "script", Main: "导入《@HTTP》\n\n令响 = （新建HTTP响应：200、" + b + "）\n以响 之 头部（写入：“Set-Cookie”、“secret”）\n以响 之 头部（移除：“Content-Type”）\n以响 之 状态码（自增：1）\n（显示：响 之 头部）\n输出“污染者结束”\n\n拦截异常：\n\t输出“挡住”\n"}
	}
	return &execSpec{ID: "http-response-read:" + kind, Mode: "script", Main: "导入《@HTTP》\n\n令响 = （新建HTTP响应：200、" + b + "）\n（显示：响 之 头部、响 之 状态码、响 之 内容）\n令默 = （新建HTTP响应：200、" + b + "、【“X” = “1”】）\n（显示：默 之 头部）\n输出“读完响应”\n"}
}

// c16HTTPSpec: one request to a ZnHttpHandler. shape selects the request (no query string and
// no extra header / a query string / extra headers / a JSON body); the entry program either
// fills defaults into the parts of 当前请求 in place (patch) or only displays them.
func c16HTTPSpec(id string, shape int, patch bool) *execSpec {
	sp := &execSpec{ID: fmt.Sprintf("%s/%d", id, shape), Mode: "http", ReqURL: "http://sim.local/页"}
	switch shape {
	case 1:
		sp.ReqURL += "?a=1&b=2"
	case 2:
		sp.ReqHeaders = [][2]string{{"X-Trace", "t1"}, {"Accept", "text/plain"}}
	case 3:
		sp.ReqHeaders = [][2]string{{"Content-Type", "application/json"}}
		sp.ReqBody = `{"k":1,"表":[1,2]}`
	}
	if patch {
		sp.Main = "输入当前请求\n以当前请求 之 查询参数（写入：“页码”、“1”）\n以当前请求 之 头部（写入：“X-注入”、“是”）\n（显示：当前请求 之 查询参数）\n输出“污染者结束”\n\n拦截异常：\n\t输出“挡住”\n"
		if shape == 3 {
			sp.Main = "输入当前请求\n以当前请求 之 内容（写入：“注入”、“是”）\n以当前请求 之 查询参数（写入：“页码”、“1”）\n输出“污染者结束”\n\n拦截异常：\n\t输出“挡住”\n"
		}
		return sp
	}
	sp.Main = "输入当前请求\n（显示：当前请求 之 查询参数）\n（显示：当前请求 之 头部）\n（显示：当前请求 之 内容）\n（显示：当前请求 之 路径）\n输出“读完请求”\n"
	return sp
}

// c16ResultBatch is one program that does what c16ResultPolluter does for EVERY entry of the
// table, each in a function of its own with its own handler.
func c16ResultBatch(mi int) *execSpec {
	var sb strings.Builder
	for i, e := range c16Results {
		ms := c16ResultMutators[e[1]]
		fmt.Fprintf(&sb, "如何试%d？\n\t%s，得到果\n\t（显示：“先%d”、果）\n\t以果（%s）\n\t输出“好”\n\n\t拦截异常：\n\t\t输出“挡”\n\n", i, e[0], i, ms[mi%len(ms)])
	}
	for i := range c16Results {
		fmt.Fprintf(&sb, "（试%d）\n", i)
	}
	sb.WriteString("输出“污染者结束”\n")
	return &execSpec{ID: fmt.Sprintf("method-results:all/%d", mi), Mode: "script", Main: sb.String()}
}

// c16Related picks the victim of the battery that looks at what polluter p touches.
func c16Related(t *zsim.Tape, p *execSpec) *execSpec {
	gs := c16Globals()
	v := func(ds ...uint32) *execSpec { return c16Victim(zsim.ReplayTape(ds)) }
	idxOf := func(g string) uint32 {
		for i, x := range gs {
			if x == g {
				return uint32(i)
			}
		}
		return 0
	}
	id := p.ID
	switch {
	case strings.HasPrefix(id, "libobj:"):
		return v(10)
	case strings.HasPrefix(id, "json-doc-patched:"):
		return v(12, map[string]uint32{"large": 0, "medium": 1, "small": 2}[strings.TrimPrefix(id, "json-doc-patched:")])
	case strings.HasPrefix(id, "ctor") && strings.Contains(id, "探针"):
		return v(9)
	case strings.HasPrefix(id, "ctor"):
		if t.Draw(2) == 0 {
			return v(8)
		}
		return v(0, idxOf(id[strings.Index(id, ":")+1:]))
	case strings.HasPrefix(id, "mutate:数值"), id == "varinput-mutates":
		return v([]uint32{1, 11, 0}[t.Draw(3)], idxOf("数值"))
	case strings.HasPrefix(id, "mutate:"), strings.HasPrefix(id, "setprop:"):
		g := strings.TrimPrefix(strings.TrimPrefix(id, "mutate:"), "setprop:")
		if i := strings.Index(g, "."); i >= 0 {
			g = g[:i]
		}
		return v(0, idxOf(g))
	case strings.HasPrefix(id, "other-project"), strings.HasPrefix(id, "define:"), strings.HasPrefix(id, "declare:"):
		return v([]uint32{5, 7, 6}[t.Draw(3)], uint32(t.Draw(3)))
	case strings.HasPrefix(id, "import:"), id == "lib-call-fails":
		return v([]uint32{4, 9, 10, 15}[t.Draw(4)], uint32(t.Draw(3)))
	case id == "dies-mid-call":
		return v([]uint32{6, 2, 3}[t.Draw(3)])
	case strings.HasPrefix(id, "http-response-patched:"):
		return v(14, map[string]uint32{"text": 0, "json": 1, "number": 2}[strings.TrimPrefix(id, "http-response-patched:")])
	case strings.HasPrefix(id, "http-program-crashes-host/"):
		return v(13, uint32(t.Draw(4)))
	case strings.HasPrefix(id, "http-request-patched/"):
		shape := uint32(id[len(id)-1] - '0')
		if t.Draw(2) == 1 {
			shape = 0
		}
		return v(13, shape)
	case id == "script-with-escapes":
		again := *p
		again.ID = "again:" + p.ID
		return &again
	case strings.HasPrefix(id, "method-result"):
		// nothing in the battery looks at method results: the program itself, run again, does
		again := *p
		again.ID = "again:" + p.ID
		return &again
	}
	return nil
}

// polluter draws one program that tries to leave something behind.
func c16Polluter(t *zsim.Tape) *execSpec {
	gs := c16Globals()
	guard := "\n\n拦截异常：\n\t输出“挡住”\n"
	switch t.Draw(22) {
	case 21: // text literals with escape sequences, a program one would run again and again
		return &execSpec{ID: "script-with-escapes", Mode: "script", Main: "令表头 = “名称`TAB`数量`LF`”\n令行 = “苹果`TAB`3`CR``LF`”\n令字 = “`U+4E2D`文”\n（显示：表头、行、字）\n输出【表头，行，字】\n"}
	case 20: // a request whose program takes the interpreter down (net/http recovers), once or hundreds of times
		sp := c16HTTPSpec("http-request-patched", 0, true)
		sp.Repeat = []int{1, 3, 127, 128, 129, 300}[t.Draw(6)]
		sp.ID = fmt.Sprintf("http-program-crashes-host/x%d", sp.Repeat)
		sp.Main = "输入当前请求\n令A = 【1，2】\n以A（新增：9、-10）\n输出“污染者结束”\n"
		return sp
	case 19: // an object of a real library class whose parts are changed in place
		return c16Response(t.Draw(3), true)
	case 18: // an entry program that changes the parts of ITS OWN request object in place
		return c16HTTPSpec("http-request-patched", t.Draw(4), true)
	case 17: // the result of a built-in method, bound without a copy and changed in place
		return c16ResultPolluter(t.Draw(len(c16Results)), t.Draw(4))
	case 16: // … the same for every method of the table in one program
		return c16ResultBatch(t.Draw(4))
	case 15: // a parsed document bound without a copy (得到) and patched in place
		doc, size := c16Doc(t.Draw(3))
		return &execSpec{ID: "json-doc-patched:" + size, Mode: "script", Main: "导入《@JSON》\n\n（解析JSON：“" + doc + "”），得到配置\n以配置（写入：“已处理”、“是”）\n配置 # “retries” = 42\n输出“污染者结束”" + guard}
	case 14: // a redefined constructor whose body declares things of its own, and is then used
		g := append(gs, "探针异常")[t.Draw(len(gs)+1)]
		imp := ""
		if g == "探针异常" {
			imp = "导入《@探针》\n\n"
		}
		return &execSpec{ID: "ctor-with-declarations:" + g, Mode: "script", Main: imp + fmt.Sprintf("如何新建%s？\n\t输入文\n\t如何加标记？\n\t\t输出“标”\n\t定义临时类：\n\t\t其名 = “t”\n\t令记 = 文\n\n令错 = （新建%s：“x”）\n输出“污染者结束”%s", g, g, guard)}
	case 13: // the input-variable text is evaluated against predefined values too
		return &execSpec{ID: "varinput-mutates", Mode: "script", VarInput: pick(t, []string{"甲 = 以数值（自增：4）", "甲 = 以数值（自减：1）", "甲 = 数值"}), Main: "输入甲\n令乙 = 以甲（自增：2）\n输出“污染者结束”" + guard}
	case 11, 12: // every mutating method x every property of a fresh object of a library class (also via a local copy / an item)
		m := c16Mutators[t.Draw(len(c16Mutators))]
		args := []string{"", "：1", "：3、2", "：“x”", "：“k”、5"}[t.Draw(5)]
		target := []string{"物 之 文", "物 之 数", "物 之 表", "物 之 典", "本", "物 之 表 # 2", "物 之 典 # “k”"}[t.Draw(7)]
		return &execSpec{ID: "libobj:" + target + "." + m, Mode: "script", Main: fmt.Sprintf("导入《@探针》\n\n令物 = （新建探针箱）\n令本 = 物 之 文\n令结果 = 以%s（%s%s）\n输出“污染者结束”%s", target, m, args, guard)}
	case 10: // in-place methods known to apply to a predefined value (half of the mutate share)
		c := [][3]string{{"数值", "自增", "：2"}, {"数值", "自减", "：3"}, {"数值", "自增", "：0.5"}}[t.Draw(3)]
		return &execSpec{ID: "mutate:" + c[0] + "." + c[1], Mode: "script", Main: fmt.Sprintf("令结果 = 以%s（%s%s）\n输出“污染者结束”%s", c[0], c[1], c[2], guard)}
	case 0, 1: // every mutating method name × every predefined value
		g := gs[t.Draw(len(gs))]
		m := c16Mutators[t.Draw(len(c16Mutators))]
		args := []string{"", "：1", "：3、2", "：“x”", "：“k”、5"}[t.Draw(5)]
		return &execSpec{ID: "mutate:" + g + "." + m, Mode: "script", Main: fmt.Sprintf("令结果 = 以%s（%s%s）\n输出“污染者结束”%s", g, m, args, guard)}
	case 2: // redefine the constructor of a predefined / library type
		g := append(gs, "探针异常")[t.Draw(len(gs)+1)]
		imp := ""
		if g == "探针异常" {
			imp = "导入《@探针》\n\n"
		}
		return &execSpec{ID: "ctor:" + g, Mode: "script", Main: imp + fmt.Sprintf("如何新建%s？\n\t输入文\n\t（显示：“构造器被替换”）\n\n输出“污染者结束”%s", g, guard)}
	case 3: // property assignment on a predefined value
		g := gs[t.Draw(len(gs))]
		return &execSpec{ID: "setprop:" + g, Mode: "script", Main: fmt.Sprintf("%s 之 内容 = “改”\n输出“污染者结束”%s", g, guard)}
	case 4: // declarations of global names / names the victims use
		n := append(gs, "甲", "帮手", "工具")[t.Draw(len(gs)+3)]
		return &execSpec{ID: "declare:" + n, Mode: "script", Main: fmt.Sprintf("令%s = 【1，2，3】\n输出“污染者结束”%s", n, guard)}
	case 5: // a program that dies in the middle of nested calls
		return &execSpec{ID: "dies-mid-call", Mode: "script", Main: "如何内？\n\t令局部 = 1\n\t抛出异常：“半途”！\n\n如何外？\n\t令中间 = 2\n\t输出（内）\n\n令甲 = 7\n（外）\n"}
	case 6: // imports of every library
		lib := []string{"@JSON", "@文件", "@探针"}[t.Draw(3)]
		return &execSpec{ID: "import:" + lib, Mode: "script", Main: fmt.Sprintf("导入《%s》\n\n输出“污染者结束”\n", lib)}
	case 7: // a file project whose module has the same name as the victim's but other content
		sp := c16ModuleProject(1 + t.Draw(3))
		sp.ID = "other-" + sp.ID
		return sp
	case 8: // a custom class / function with a name the victims use
		return &execSpec{ID: "define:帮手", Mode: "script", Main: "如何帮手？\n\t输出“冒牌帮手”\n\n定义货：\n\t其名 = “冒牌”\n\n输出（帮手）\n"}
	default: // a library call that fails inside (frames left behind)
		return &execSpec{ID: "lib-call-fails", Mode: "script", Main: "导入《@JSON》\n\n令X = （解析JSON：“不是JSON”）\n输出X\n"}
	}
}

// c16OwnType: programs that define a type of their own as their first declaration, build an
// object and call its method (which uses names of the main program) - with no import, with a
// partial import, and with a user module imported.
func c16OwnType(variant int) *execSpec {
	body := "定义狗：\n\t其名 = “小黄”\n\n\t如何狂吠？\n\t\t输出（叫声）\n\n如何叫声？\n\t输出“汪汪汪”\n\n令小狗 = （新建狗）\n（显示：小狗 之 名）\n输出以小狗（狂吠）\n"
	switch variant {
	case 1:
		return &execSpec{ID: "own-type:partial-import", Mode: "script", Main: "导入《@JSON》的生成JSON\n\n" + body}
	case 2:
		return &execSpec{ID: "own-type:module-import", Mode: "file", Files: map[string]string{"/proj/工具.zn": "如何帮手？\n\t输出“真帮手”\n"}, Main: "导入“工具”\n\n" + body}
	}
	return &execSpec{ID: "own-type:no-import", Mode: "script", Main: body}
}

// victim draws a program from the fixed battery that reads predefined state.
func c16Victim(t *zsim.Tape) *execSpec {
	gs := c16Globals()
	switch t.Draw(16) {
	case 15:
		return c16OwnType(t.Draw(3))
	case 14:
		return c16Response(t.Draw(3), false)
	case 13: // an entry program that only looks at its request
		return c16HTTPSpec("http-request-read", t.Draw(4), false)
	case 12: // the byte-identical document parsed again and only read
		doc, size := c16Doc(t.Draw(3))
		return &execSpec{ID: "json-doc-read:" + size, Mode: "script", Main: "导入《@JSON》\n\n令配置 = （解析JSON：“" + doc + "”）\n令标记 = 以配置（读取：“已处理”）\n令重试 = 配置 # “retries”\n（显示：标记、重试、配置之长度）\n输出“读完文档”\n"}
	case 11: // predefined values as seen by the input-variable text
		return &execSpec{ID: "varinput-reads", Mode: "script", VarInput: "甲 = 数值\n乙 = 以数值（加：1）", Main: "输入甲、乙\n（显示：甲、乙）\n输出“输入完”\n"}
	case 10: // default property values of a library class
		return &execSpec{ID: "library-object-defaults", Mode: "script", Main: "导入《@探针》\n\n令物 = （新建探针箱）\n（显示：物 之 文、物 之 数、物 之 表、物 之 典）\n输出“默认值完”\n"}
	case 9: // a class exported by a registered library
		return &execSpec{ID: "library-class", Mode: "script", Main: "导入《@探针》\n\n令错 = （新建探针异常）\n（显示：错 之 内容）\n输出“库类完”\n\n拦截异常：\n\t输出“库类构造失败”\n"}
	case 0:
		g := gs[t.Draw(len(gs))]
		return &execSpec{ID: "read:" + g, Mode: "script", Main: fmt.Sprintf("（显示：%s）\n输出“读完”\n\n拦截异常：\n\t输出其内容\n", g)}
	case 1:
		return &execSpec{ID: "arith:数值", Mode: "script", Main: "令甲 = 以数值（加：1）\n（显示：甲）\n输出甲\n"}
	case 2:
		return &execSpec{ID: "throw-catch", Mode: "script", Main: "抛出异常：“原文”！\n输出“不该到这”\n\n拦截异常：\n\t（显示：“拦截到”、其内容）\n\t输出其内容\n"}
	case 3:
		return &execSpec{ID: "throw-uncaught", Mode: "script", Main: "如何抛？\n\t抛出异常：“未拦截”！\n\n（抛）\n"}
	case 4:
		return &execSpec{ID: "json-roundtrip", Mode: "script", Main: "导入《@JSON》\n\n令甲 = （解析JSON：“{\"b\":1,\"a\":[1,2]}”）\n（显示：甲）\n输出（生成JSON：甲）\n"}
	case 5:
		return c16ModuleProject(1 + t.Draw(3))
	case 6:
		return &execSpec{ID: "names", Mode: "script", Main: "令甲 = 1\n令局部 = 2\n令中间 = 3\n如何帮手？\n\t输出“真帮手”\n\n（显示：甲、局部、中间、（帮手））\n输出“名完”\n"}
	case 7:
		return &execSpec{ID: "script-imports-module", Mode: "script", Main: "导入“工具”\n\n输出（帮手）\n"}
	default:
		return &execSpec{ID: "new-exception", Mode: "script", Main: "令错 = （新建异常：“手工”）\n（显示：错 之 内容）\n输出“建完”\n\n拦截异常：\n\t输出“构造失败”\n"}
	}
}

type c16Scenario struct {
	Part     string      `json:"part"`
	History  []*execSpec `json:"history,omitempty"`
	Shared   []bool      `json:"reuse_interpreter,omitempty"`
	Victim   *execSpec   `json:"victim,omitempty"`
	Alone    string      `json:"victim_alone_in_fresh_process,omitempty"`
	After    string      `json:"victim_after_history,omitempty"`
	Handler  string      `json:"handler,omitempty"`
	Requests []string    `json:"requests,omitempty"`
	Solo     []string    `json:"responses_served_alone,omitempty"`
	Conc     []string    `json:"responses_concurrent,omitempty"`
	Races    []string    `json:"races,omitempty"`
}

func runC16(t *zsim.Tape, cfg *hlib.Config) *hlib.Outcome {
	enumerating := cfg.Int("enum", 0) > 0 && cfg.RunIndex < len(c16EnumPolluters())*(c16Victims+1)
	if t.Draw(3) == 2 && !enumerating {
		return c16PartB(t, cfg)
	}
	return c16PartA(t, cfg)
}

// c16EnumPolluters lists, deterministically, every single-operation polluter of the catalogue:
// every mutating method name x every predefined value x 5 argument shapes, a constructor
// redefinition and a property assignment for every predefined value and the library classes.
func c16EnumPolluters() []*execSpec {
	guard := "\n\n拦截异常：\n\t输出“挡住”\n"
	var out []*execSpec
	gs := c16Globals()
	for _, g := range gs {
		for _, m := range c16Mutators {
			for ai, args := range []string{"", "：1", "：3、2", "：“x”", "：“k”、5"} {
				out = append(out, &execSpec{ID: fmt.Sprintf("mutate:%s.%s/%d", g, m, ai), Mode: "script", Main: fmt.Sprintf("令结果 = 以%s（%s%s）\n输出“污染者结束”%s", g, m, args, guard)})
			}
		}
		out = append(out, &execSpec{ID: "ctor:" + g, Mode: "script", Main: fmt.Sprintf("如何新建%s？\n\t输入文\n\t（显示：“构造器被替换”）\n\n输出“污染者结束”%s", g, guard)})
		out = append(out, &execSpec{ID: "setprop:" + g, Mode: "script", Main: fmt.Sprintf("%s 之 内容 = “改”\n输出“污染者结束”%s", g, guard)})
	}
	for _, target := range []string{"物 之 文", "物 之 数", "物 之 表", "物 之 典", "本", "物 之 表 # 2", "物 之 典 # “k”"} {
		for _, m := range c16Mutators {
			for ai, args := range []string{"", "：1", "：“x”"} {
				out = append(out, &execSpec{ID: fmt.Sprintf("libobj:%s.%s/%d", target, m, ai), Mode: "script", Main: fmt.Sprintf("导入《@探针》\n\n令物 = （新建探针箱）\n令本 = 物 之 文\n令结果 = 以%s（%s%s）\n输出“污染者结束”%s", target, m, args, guard)})
			}
		}
	}
	for _, c := range append(append([]string{}, gs...), "探针异常", "探针箱") {
		imp := ""
		if strings.HasPrefix(c, "探针") {
			imp = "导入《@探针》\n\n"
		}
		out = append(out, &execSpec{ID: "ctor-with-declarations:" + c, Mode: "script", Main: imp + fmt.Sprintf("如何新建%s？\n\t输入文\n\t如何加标记？\n\t\t输出“标”\n\t定义临时类：\n\t\t其名 = “t”\n\t令记 = 文\n\n令错 = （新建%s：“x”）\n输出“污染者结束”%s", c, c, guard)})
	}
	for ei := range c16Results {
		for mi := range c16ResultMutators[c16Results[ei][1]] {
			out = append(out, c16ResultPolluter(ei, mi))
		}
	}
	for mi := 0; mi < 4; mi++ {
		out = append(out, c16ResultBatch(mi))
	}
	for shape := 0; shape < 4; shape++ {
		out = append(out, c16HTTPSpec("http-request-patched", shape, true))
	}
	for body := 0; body < 3; body++ {
		out = append(out, c16Response(body, true))
	}
	out = append(out, &execSpec{ID: "script-with-escapes", Mode: "script", Main: "令表头 = “名称`TAB`数量`LF`”\n令行 = “苹果`TAB`3`CR``LF`”\n令字 = “`U+4E2D`文”\n（显示：表头、行、字）\n输出【表头，行，字】\n"})
	for _, n := range []int{1, 129, 300} {
		sp := c16HTTPSpec("http-request-patched", 0, true)
		sp.Repeat, sp.ID = n, fmt.Sprintf("http-program-crashes-host/x%d", n)
		sp.Main = "输入当前请求\n令A = 【1，2】\n以A（新增：9、-10）\n输出“污染者结束”\n"
		out = append(out, sp)
	}
	for class := 0; class < 3; class++ {
		doc, size := c16Doc(class)
		out = append(out, &execSpec{ID: "json-doc-patched:" + size, Mode: "script", Main: "导入《@JSON》\n\n（解析JSON：“" + doc + "”），得到配置\n以配置（写入：“已处理”、“是”）\n配置 # “retries” = 42\n输出“污染者结束”" + guard})
	}
	for _, c := range []string{"探针异常", "探针箱"} {
		out = append(out, &execSpec{ID: "ctor:" + c, Mode: "script", Main: fmt.Sprintf("导入《@探针》\n\n如何新建%s？\n\t输入文\n\t（显示：“构造器被替换”）\n\n输出“污染者结束”%s", c, guard)})
	}
	return out
}

const c16Victims = 16

func c16PartA(t *zsim.Tape, cfg *hlib.Config) *hlib.Outcome {
	sc := &c16Scenario{Part: "A:history"}
	out := &hlib.Outcome{Scenario: sc, Note: map[string]int{}}
	n := t.Draw(5)
	for i := 0; i < n; i++ {
		sc.History = append(sc.History, c16Polluter(t))
		sc.Shared = append(sc.Shared, t.Draw(2) == 0)
	}
	sc.Victim = c16Victim(t)
	if n > 0 {
		switch t.Draw(4) {
		case 3:
			// the victim is one of the polluters again: any program must behave the second time in a
			// process exactly as it does the first time after a restart
			again := *sc.History[t.Draw(n)]
			again.ID = "again:" + again.ID
			sc.Victim = &again
		case 1, 2:
			// the victim that looks at what one of the polluters touched
			if rv := c16Related(t, sc.History[t.Draw(n)]); rv != nil {
				sc.Victim = rv
			}
		}
	}
	sc.Shared = append(sc.Shared, t.Draw(2) == 0)
	if t.Draw(5) == 4 {
		// one history in five consists of GENERATED programs: nothing in it is aimed at a
		// particular piece of state, so it is what finds state nobody thought of (recycled
		// symbol tables, frames, caches keyed by something two programs share)
		sc.History, sc.Shared = nil, nil
		n = 1 + t.Draw(3)
		for i := 0; i < n; i++ {
			sc.History = append(sc.History, c16Generated(t))
			sc.Shared = append(sc.Shared, t.Draw(2) == 0)
		}
		sc.Shared = append(sc.Shared, t.Draw(2) == 0)
		switch t.Draw(4) {
		case 0:
			sc.Victim = c16Generated(t)
		case 1:
			again := *sc.History[t.Draw(n)]
			again.ID = "again:" + again.ID
			sc.Victim = &again
		case 2:
			sc.Victim = c16OwnType(t.Draw(3))
		default: // a victim of the battery after generated programs
		}
	}
	if cfg.Int("enum", 0) > 0 {
		// the first runs enumerate (single polluter) x (victim kind) completely
		ps := c16EnumPolluters()
		if cfg.RunIndex < len(ps)*(c16Victims+1) {
			p := ps[cfg.RunIndex/(c16Victims+1)]
			sc.History, n = []*execSpec{p}, 1
			if vi := cfg.RunIndex % (c16Victims + 1); vi < c16Victims {
				sc.Victim = c16Victim(zsim.ReplayTape([]uint32{uint32(vi)}))
			} else {
				again := *p
				again.ID = "again:" + p.ID
				sc.Victim = &again
			}
			sc.Shared = []bool{cfg.RunIndex%2 == 0, (cfg.RunIndex/2)%2 == 0}
			sc.Part = "A:history(enumerated polluter x victim)"
			out.Note["enumerated-(polluter,victim)-pairs"]++
		}
	}
	alone, err := playInFreshProcess(&histSpec{Execs: []*execSpec{sc.Victim}, Shared: []bool{true}}, true)
	if err != nil {
		out.Sig = "harness:reference-process-failed"
		out.Detail = err.Error()
		return out
	}
	sc.Alone = alone
	var kinds []string
	for _, p := range sc.History {
		kinds = append(kinds, strings.SplitN(p.ID, ".", 2)[0])
	}
	got := alone
	if n > 0 {
		// the long-lived process of this history is a child process too, so that whatever one
		// run leaves behind cannot influence the next run of the harness
		got, err = playInFreshProcess(&histSpec{Execs: append(append([]*execSpec{}, sc.History...), sc.Victim), Shared: sc.Shared}, false)
		if err != nil {
			out.Sig = "crash:long-lived-process-died"
			out.Symptom = "crash"
			out.Detail = "the process playing the history died: " + err.Error()
			return out
		}
	}
	w := zsim.NewWorld(t)
	sc.After = got
	out.Trace = w.Trace()
	out.Keys = []string{fmt.Sprintf("A|%v|%s", kinds, sc.Victim.ID)}
	for _, k := range kinds {
		out.Keys = append(out.Keys, "pair|"+k+"|"+sc.Victim.ID)
	}
	out.Trivial = n == 0
	out.Note["fresh-reference-processes"] = refProcs
	refProcs = 0
	if got != alone {
		// scenario-level minimisation: drop every polluter the divergence does not need
		hist := append([]*execSpec{}, sc.History...)
		shared := append([]bool{}, sc.Shared...)
		for i := 0; i < len(hist) && len(hist) > 1; {
			h2 := append(append([]*execSpec{}, hist[:i]...), hist[i+1:]...)
			s2 := append(append([]bool{}, shared[:i]...), shared[i+1:]...)
			g2, err := playInFreshProcess(&histSpec{Execs: append(append([]*execSpec{}, h2...), sc.Victim), Shared: s2}, true)
			if err == nil && g2 != alone {
				hist, shared, got = h2, s2, g2
			} else {
				i++
			}
		}
		var us []string
		for _, p := range hist {
			us = append(us, p.ID)
		}
		sc.History, sc.Shared, sc.After = hist, shared, got
		out.Sig = fmt.Sprintf("pollute:%s=>%s", strings.Join(us, ";"), sc.Victim.ID)
		out.Symptom = "victim-differs:" + sc.Victim.ID
		out.Detail = fmt.Sprintf("after the history %v the victim %s behaves differently from the same program run alone in a fresh process\n  alone : %s\n  after : %s", us, sc.Victim.ID, alone, got)
	}
	return out
}

// ------------------------------------------------------------------ part B

func c16PartB(t *zsim.Tape, cfg *hlib.Config) *hlib.Outcome {
	// one part-B run in three is executed in a freshly exec'ed process: every process-wide
	// cache and lazily initialised table is cold there, as it is for the first requests a
	// server process ever sees
	if t.Draw(3) == 2 && cfg.Int("coldchild", 0) == 0 {
		o, err := hlib.RunCold(t, cfg)
		if err != nil {
			return &hlib.Outcome{Sig: "harness:cold-child-failed", Detail: err.Error()}
		}
		if o.Note == nil {
			o.Note = map[string]int{}
		}
		o.Note["partB-runs-in-a-cold-process"]++
		return o
	}
	sc := &c16Scenario{Part: "B:concurrent"}
	out := &hlib.Outcome{Scenario: sc, Note: map[string]int{}}
	n := 2 + t.Draw(3)
	playground := t.Draw(2) == 0
	sc.Handler = "ZnHttpHandler"
	if playground {
		sc.Handler = "ZnPlaygroundHandler"
	}
	variant := t.Draw(6)
	mkBody := func(i int) string {
		if playground {
			var src, vin string
			switch variant {
			case 0:
				src = fmt.Sprintf("令甲 = %d\n令乙 = 甲 * 2\n如何名？\n\t输出“请求%d”\n\n输出以（名）（拼接：“·”、“%d”）", i, i, i*2)
			case 1: // input variables evaluated by ExecVarInputText
				src, vin = "输入甲\n输出甲 * 3", fmt.Sprintf("甲 = %d", i)
			case 5: // dictionary / list built-ins whose argument validation goes through shared helpers
				src = fmt.Sprintf("令典 = 【“k” = %d，“内” = 【“j” = “r%d”】】\n令表 = 【1，2】\n以表（后增：%d）\n令得 = 以典（读取：“内”、“j”）\n输出以得（拼接：“·”、“%d”）", i, i, i, i)
			case 4: // the predefined random function (its value must not influence the response)
				src = fmt.Sprintf("令随 = （取随机数）\n令又 = （取随机数）\n输出“r%d”", i)
			case 2: // an exception caught inside the request
				src = fmt.Sprintf("如何抛？\n\t抛出异常：“请求%d的异常”！\n\n（抛）\n输出“未到”\n\n拦截异常：\n\t输出其内容", i)
			default: // a library import and a predefined value used in place
				src = fmt.Sprintf("导入《@JSON》\n\n令数 = 以数值（加：%d）\n输出（生成JSON：【“n” = 数，“id” = “r%d”】）", i, i)
			}
			b, _ := json.Marshal(map[string]string{"SourceCode": src, "VarInput": vin})
			return string(b)
		}
		return fmt.Sprintf("payload-%d", i)
	}
	entries := []string{
		"输入当前请求\n令体 = 当前请求 之 内容\n如何回声？\n\t输入文\n\t输出以“回声：”（拼接：文）\n\n输出（回声：体）\n",
		"导入“工具”\n输入当前请求\n输出（加工：当前请求 之 内容）\n",
		"输入当前请求\n输出【“体” = 当前请求 之 内容，“方法” = 当前请求 之 方法，“路径” = 当前请求 之 路径】\n",
	}
	entry := entries[t.Draw(len(entries))]
	w := zsim.NewWorld(t)
	w.TraceCap = 3000
	d := zsim.NewDisk(w)
	d.Put("/srv/entry.zn", []byte(entry))
	d.Put("/srv/工具.zn", []byte("如何加工？\n\t输入文\n\t令前 = “工具：”\n\t输出以前（拼接：文）\n"))
	mkHandler := func() http.Handler {
		in := newInterp(probeLib())
		if playground {
			return server.NewZnPlaygroundHandler(in)
		}
		return server.NewZnHttpHandler(in, "/srv/entry.zn")
	}
	serve := func(h http.Handler, body string) string {
		req := httptest.NewRequest("POST", "http://sim.local/run", strings.NewReader(body))
		rec := httptest.NewRecorder()
		func() {
			defer func() {
				if p := recover(); p != nil {
					rec.Body.WriteString(fmt.Sprintf("PANIC:%v", p))
				}
			}()
			h.ServeHTTP(rec, req)
		}()
		return fmt.Sprintf("%d %s", rec.Code, rec.Body.String())
	}
	w.Enter()
	defer w.Leave()
	for i := 0; i < n; i++ {
		sc.Requests = append(sc.Requests, mkBody(i+1))
	}
	// concurrent: one handler, one shared interpreter
	w.StartScheduler()
	w.SetKeepBias([]int{5, 7, 3}[t.Draw(3)])
	zsim.NewKernel(w)
	shared := mkHandler()
	sc.Conc = make([]string, n)
	proc := w.K.NewProc("server", 1, []string{"zinc-server"}, nil)
	zsim.TrackBegin(w)
	for i := 0; i < n; i++ {
		i := i
		w.Spawn(proc, fmt.Sprintf("caller%d", i+1), func() { sc.Conc[i] = serve(shared, sc.Requests[i]) })
	}
	res := w.Run(1<<40, 400000, nil)
	races := zsim.TrackEnd(w)
	steps, il := w.Steps(), w.Interleaving()
	out.Trace = w.Trace()
	w.StopScheduler()
	// the references: every request served alone on a fresh interpreter (after the concurrent
	// phase, so that they do not warm anything up for it)
	for i := 0; i < n; i++ {
		sc.Solo = append(sc.Solo, serve(mkHandler(), sc.Requests[i]))
	}
	out.Keys = []string{fmt.Sprintf("B|%s|v%d|n=%d|il:%x", sc.Handler, variant, n, il)}
	out.Probes = w.Probes
	out.Note["partB-steps"] = steps
	if res.Reason == "steps" {
		out.Note["partB-step-cap"]++
	}
	for i := range sc.Solo {
		if !strings.HasPrefix(sc.Solo[i], "200 ") {
			// a generated request that does not even succeed alone tests nothing: fail loudly
			out.Sig = "harness:partB-request-invalid"
			out.Detail = fmt.Sprintf("request %d served alone answers %q", i+1, sc.Solo[i])
			return out
		}
	}
	for i := range sc.Conc {
		if sc.Conc[i] != sc.Solo[i] {
			sym := "differs"
			for j := range sc.Solo {
				if j != i && sc.Conc[i] == sc.Solo[j] {
					sym = "answered-with-another-request's-program"
				}
			}
			out.Sig = fmt.Sprintf("concurrent:%s:%s", sc.Handler, sym)
			out.Detail = fmt.Sprintf("request %d served concurrently through one shared interpreter got %q, served alone it gets %q", i+1, sc.Conc[i], sc.Solo[i])
			return out
		}
	}
	if len(races) > 0 {
		sc.Races = races
		loc := races[0]
		if i := strings.Index(loc, " "); i > 0 {
			loc = loc[:i]
		}
		out.Sig = "race:" + loc
		out.Detail = "unprotected conflicting accesses from concurrent executions (lockset oracle):\n  " + strings.Join(races, "\n  ")
	}
	return out
}

// c16ListMain: `h C16list` — development aid: runs every enumerated polluter and every victim
// alone and reports those that do not even parse (a catalogue entry that is a syntax error
// pollutes nothing and reads nothing).
func c16ListMain() {
	w := zsim.NewWorld(zsim.NewTape(1))
	w.Enter()
	bad := 0
	specs := c16EnumPolluters()
	for i := 0; i < c16Victims; i++ {
		specs = append(specs, c16Victim(zsim.ReplayTape([]uint32{uint32(i)})))
	}
	for _, sp := range specs {
		res := runSpec(w, newInterp(probeLib()), sp)
		if strings.Contains(res.Err, "语法错误") {
			bad++
			fmt.Printf("SYNTAX %s: %s\n", sp.ID, firstLines(res.Err, 3))
		}
	}
	w.Leave()
	fmt.Printf("%d catalogue entries, %d with syntax errors\n", len(specs), bad)
}
