package main

import (
	"fmt"
	"strings"
	"unicode/utf8"

	zio "github.com/DemoHn/Zn/pkg/io"
	"github.com/DemoHn/Zn/znverif/hlib"
	"github.com/DemoHn/Zn/znverif/zsim"
)

// Profile `concurrent` of C17: after a short history of earlier decodes in the same process
// (some of them of files that are rejected), two or three tasks decode DIFFERENT files at the
// same time, the way the thread server does for concurrent requests (Fork().LoadFile(..)).
// The seeded scheduler interleaves them at every return from a read and at every function
// entry of pkg/io, pkg/exec and pkg/runtime. Each task's result must be what the same file
// gives when decoded alone.

type c17cFile struct {
	Path     string `json:"path"`
	Class    string `json:"class"`
	Size     int    `json:"size_bytes"`
	Valid    bool   `json:"valid_utf8"`
	Got      string `json:"got,omitempty"`
	Alone    string `json:"alone,omitempty"`
	data     []byte
	runes    []rune
	err      error
	res      ExecResult
	panicked string
}

type c17cScenario struct {
	Profile  string      `json:"profile"`
	Target   string      `json:"target"`
	History  []*c17cFile `json:"history_decoded_before"`
	Victims  []*c17cFile `json:"decoded_concurrently"`
	Short    bool        `json:"short_reads"`
	KeepBias int         `json:"keep_bias"`
}

var c17cMarks = []string{"甲", "é", "😀", "x", "乙", "丙"}
var c17cCounts = []int{1, 7, 100, 1365, 1366, 2000, 4096, 5000}

func c17cGen(t *zsim.Tape, target string, idx int, wantInvalid bool) *c17cFile {
	f := &c17cFile{Path: fmt.Sprintf("/src/f%d.zn", idx), Valid: true}
	mark := c17cMarks[idx%len(c17cMarks)]
	n := c17cCounts[t.Draw(len(c17cCounts))]
	var sb strings.Builder
	if target == "LoadFile.Execute" {
		// a program whose value depends on every one of its lines
		k := idx + 2
		m := 3 + t.Draw(30)
		sb.WriteString("令总 = 0\n")
		for i := 0; i < m; i++ {
			if i == m/2 {
				fmt.Fprintf(&sb, "注：%s\n", strings.Repeat(mark, n))
			}
			fmt.Fprintf(&sb, "总 = 总 + %d\n", k)
		}
		sb.WriteString("输出总\n")
		f.Class = fmt.Sprintf("program(%d lines adding %d, comment of %d x %q)", m, k, n, mark)
	} else {
		sb.WriteString(strings.Repeat(mark, n))
		fmt.Fprintf(&sb, "#%d#", idx)
		sb.WriteString(strings.Repeat(mark, t.Draw(3)*700))
		f.Class = fmt.Sprintf("text(%d x %q)", n, mark)
	}
	f.data = []byte(sb.String())
	if wantInvalid {
		c := c17Corruptions[t.Draw(len(c17Corruptions))]
		if target == "LoadFile.Execute" {
			f.data = append(f.data, []byte("注：")...)
			f.data = append(f.data, c.b...)
			f.data = append(f.data, '\n')
		} else if t.Draw(2) == 1 {
			f.data = append(append([]byte{}, c.b...), f.data...)
		} else {
			f.data = append(f.data, c.b...)
		}
		f.Class += "+" + c.name
	}
	f.Valid = utf8.Valid(f.data)
	f.Size = len(f.data)
	return f
}

func (f *c17cFile) decode(w *zsim.World, target string) {
	defer func() {
		if p := recover(); p != nil {
			f.panicked = fmt.Sprint(p)
		}
	}()
	if target == "LoadFile.Execute" {
		f.res = runFile(w, newInterp().Fork(), f.Path, nil)
		f.panicked = f.res.Panic
		return
	}
	fs, err := zio.NewFileStream(f.Path)
	if err != nil {
		f.err = err
		return
	}
	f.runes, f.err = fs.ReadAll()
}

func (f *c17cFile) summary(target string) string {
	if f.panicked != "" {
		return "panic: " + f.panicked
	}
	if target == "LoadFile.Execute" {
		if f.res.Err != "" {
			return "error: " + firstLines(f.res.Err, 2)
		}
		return f.res.Result
	}
	if f.err != nil {
		return "error: " + f.err.Error()
	}
	return fmt.Sprintf("%d runes, fnv %x", len(f.runes), hashRunes(f.runes))
}

func hashRunes(rs []rune) uint64 {
	h := uint64(14695981039346656037)
	for _, r := range rs {
		h = (h ^ uint64(r)) * 1099511628211
	}
	return h
}

// check compares one decode with the rule of the property (reference decoder / rejection).
func (f *c17cFile) check(target, phase string) (string, string) {
	if f.panicked != "" {
		return phase + ":panic", "Go panic: " + f.panicked
	}
	if target == "LoadFile.Execute" {
		if !f.Valid {
			if f.res.Err == "" {
				return phase + ":LoadFile:invalid-utf8-executed", fmt.Sprintf("%s (%s) is not valid UTF-8 but was executed: %s", f.Path, f.Class, f.res.Result)
			}
			return "", ""
		}
		if f.res.Err != "" {
			return phase + ":LoadFile:valid-rejected", fmt.Sprintf("%s (%s) is a valid program but was rejected: %s", f.Path, f.Class, firstLines(f.res.Err, 4))
		}
		return "", ""
	}
	want, valid := refDecode(f.data)
	if !valid {
		if f.err == nil {
			return phase + ":FileStream:invalid-utf8-accepted", fmt.Sprintf("%s (%s) is not valid UTF-8 but ReadAll returned %d runes and no error", f.Path, f.Class, len(f.runes))
		}
		return "", ""
	}
	if f.err != nil {
		return phase + ":FileStream:valid-rejected", fmt.Sprintf("%s (%s) is valid UTF-8 but was rejected: %v", f.Path, f.Class, f.err)
	}
	if string(f.runes) != string(want) {
		return phase + ":FileStream:altered", fmt.Sprintf("%s (%s): decoded text differs from the file (%d runes, reference %d runes)", f.Path, f.Class, len(f.runes), len(want))
	}
	return "", ""
}

func runC17Conc(t *zsim.Tape, cfg *hlib.Config) *hlib.Outcome {
	sc := &c17cScenario{Profile: "concurrent"}
	out := &hlib.Outcome{Scenario: sc, Note: map[string]int{}}
	sc.Target = []string{"FileStream.ReadAll", "LoadFile.Execute"}[t.Draw(2)]
	nh := t.Draw(3)
	for i := 0; i < nh; i++ {
		sc.History = append(sc.History, c17cGen(t, sc.Target, 10+i, t.Draw(2) == 1))
	}
	nv := 2 + t.Draw(2)
	for i := 0; i < nv; i++ {
		sc.Victims = append(sc.Victims, c17cGen(t, sc.Target, i, t.Draw(5) == 4))
	}
	sc.Short = t.Draw(2) == 1
	sc.KeepBias = []int{5, 7, 3}[t.Draw(3)]

	w := zsim.NewWorld(t)
	d := zsim.NewDisk(w)
	for _, f := range append(append([]*c17cFile{}, sc.History...), sc.Victims...) {
		d.Put(f.Path, f.data)
	}
	if sc.Short {
		d.ReadMode = 1
		d.Enabled[zsim.FReadShort] = true
	}
	w.Enter()
	defer w.Leave()
	fail := func(sig, detail string) *hlib.Outcome {
		out.Sig, out.Detail = sig, detail
		return out
	}
	// history: decoded one after the other, each must already obey the rule
	for _, f := range sc.History {
		f.decode(w, sc.Target)
		f.Got = f.summary(sc.Target)
		if sig, det := f.check(sc.Target, "history"); sig != "" {
			return fail(sig, det)
		}
	}
	// concurrent phase
	w.StartScheduler()
	w.SetKeepBias(sc.KeepBias)
	zsim.NewKernel(w)
	proc := w.K.NewProc("server", 1, []string{"zinc-server"}, nil)
	for i, f := range sc.Victims {
		f := f
		w.Spawn(proc, fmt.Sprintf("decoder%d", i+1), func() { f.decode(w, sc.Target) })
	}
	res := w.Run(1<<40, 400000, nil)
	steps, il := w.Steps(), w.Interleaving()
	out.Trace = w.Trace()
	w.StopScheduler()
	out.Probes = w.Probes
	out.Faults = w.Faults
	out.Note["concurrent-steps"] = steps
	out.Keys = []string{fmt.Sprintf("concurrent|%s|h%d|n%d|short=%v|il:%x", sc.Target, nh, nv, sc.Short, il)}
	if res.Reason == "steps" {
		out.Note["concurrent-step-cap"]++
		return out
	}
	for _, f := range sc.Victims {
		f.Got = f.summary(sc.Target)
		if sig, det := f.check(sc.Target, "concurrent"); sig != "" {
			return fail(sig, det)
		}
	}
	// the same files decoded alone afterwards: equal outcome (for programs: equal value)
	for _, f := range sc.Victims {
		alone := &c17cFile{Path: f.Path, Class: f.Class, Valid: f.Valid, data: f.data}
		alone.decode(w, sc.Target)
		f.Alone = alone.summary(sc.Target)
		if strings.HasPrefix(f.Alone, "error: ") && strings.HasPrefix(f.Got, "error: ") {
			continue
		}
		if f.Alone != f.Got {
			return fail("concurrent:"+strings.Split(sc.Target, ".")[0]+":differs-from-decoding-alone",
				fmt.Sprintf("%s (%s) decoded while other files were being decoded gives %q, decoded alone %q", f.Path, f.Class, f.Got, f.Alone))
		}
	}
	return out
}
