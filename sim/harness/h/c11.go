package main

// C11 — execution is deterministic. Every map iteration in Zn's source sits behind the
// T1 seam; one scenario is executed once with the canonical (sorted) order and then K
// more times with orders chosen by the tape. Everything observable must be identical.

import (
	"bytes"
	"encoding/json"
	"fmt"
	"net/http"
	"os"
	osexec "os/exec"
	"net/http/httptest"
	"net/url"
	"sort"
	"strings"

	"github.com/DemoHn/Zn/pkg/exec"
	r "github.com/DemoHn/Zn/pkg/runtime"
	"github.com/DemoHn/Zn/pkg/server"
	"github.com/DemoHn/Zn/pkg/value"
	"github.com/DemoHn/Zn/znverif/hlib"
	"github.com/DemoHn/Zn/znverif/zsim"
)

func init() { registry["C11"] = runC11 }

type c11Scenario struct {
	Kind    string            `json:"kind"`
	Main    string            `json:"main,omitempty"`
	Modules map[string]string `json:"modules,omitempty"`
	Request string            `json:"request,omitempty"`
	Headers [][2]string       `json:"headers,omitempty"`
	Query   [][2]string       `json:"query,omitempty"`
	Exprs   map[string]string `json:"exprs,omitempty"`
	DirFiles int              `json:"files_in_listed_directory,omitempty"`
	Orders  int               `json:"orders"`
	Sorted  string            `json:"outcome_sorted_order,omitempty"`
	Other   string            `json:"outcome_other_order,omitempty"`
	Site    string            `json:"site,omitempty"`
}

// keys include pairs equal up to letter case / width, which a sloppy comparison would tie
var c11Keys = []string{"甲", "乙", "丙", "丁", "A", "a", "B", "k1", "K1", "10", "1.0", "甲 ", "长长长长长长长长长长的键", "Ａ", "b", "戊", "己"}

type zgen struct {
	t    *zsim.Tape
	nvar int
}

func (g *zgen) v() string { g.nvar++; return fmt.Sprintf("V%d", g.nvar) }

func (g *zgen) scalar() string {
	switch g.t.Draw(6) {
	case 0:
		return fmt.Sprintf("%d", g.t.Draw(4))
	case 1:
		return fmt.Sprintf("%d", g.t.Draw(4))
	case 2:
		return "“" + pick(g.t, []string{"x", "y", "", "甲"}) + "”"
	case 3:
		return pick(g.t, []string{"真", "假"})
	case 4:
		return "空"
	}
	return "1.5"
}

func (g *zgen) value(depth int) string {
	if depth <= 0 {
		return g.scalar()
	}
	switch g.t.Draw(5) {
	case 0, 1, 2:
		return g.scalar()
	case 3:
		return g.dict(depth-1, nil)
	}
	n := g.t.Draw(3)
	var items []string
	for i := 0; i < n; i++ {
		items = append(items, g.value(depth-1))
	}
	return "【" + strings.Join(items, "，") + "】"
}

// dict builds a dictionary literal; with keys == nil the keys are drawn.
func (g *zgen) dict(depth int, keys []string) string {
	if keys == nil {
		keys = g.keys()
	}
	if len(keys) == 0 {
		return "【=】"
	}
	var items []string
	for _, k := range keys {
		items = append(items, fmt.Sprintf("“%s” = %s", k, g.value(depth)))
	}
	return "【" + strings.Join(items, "，") + "】"
}

func (g *zgen) keys() []string {
	n := 1 + g.t.Draw(5)
	if g.t.Draw(8) == 7 {
		n = 9 + g.t.Draw(8) // more than one bucket of a Go map
	}
	start := g.t.Draw(len(c11Keys))
	var ks []string
	for i := 0; i < n && i < len(c11Keys); i++ {
		ks = append(ks, c11Keys[(start+i)%len(c11Keys)])
	}
	// order of insertion is itself drawn
	for i := len(ks) - 1; i > 0; i-- {
		j := i - g.t.Draw(i+1)
		ks[i], ks[j] = ks[j], ks[i]
	}
	return ks
}

// mutate returns a copy of a dict literal's (key,value) list with a few values changed.
func (g *zgen) dictPair(depth int) (string, string) {
	keys := g.keys()
	vals := make([]string, len(keys))
	for i := range keys {
		vals[i] = g.value(depth)
	}
	vals2 := append([]string(nil), vals...)
	// change 0..2 positions (position matters: the defect looks at one key only)
	nchg := g.t.Draw(3)
	for c := 0; c < nchg; c++ {
		i := g.t.Draw(len(keys))
		vals2[i] = g.value(depth)
	}
	keys2 := append([]string(nil), keys...)
	if g.t.Draw(3) == 1 { // same content, different insertion order
		for i, j := 0, len(keys2)-1; i < j; i, j = i+1, j-1 {
			keys2[i], keys2[j] = keys2[j], keys2[i]
			vals2[i], vals2[j] = vals2[j], vals2[i]
		}
	}
	mk := func(ks, vs []string) string {
		var items []string
		for i := range ks {
			items = append(items, fmt.Sprintf("“%s” = %s", ks[i], vs[i]))
		}
		return "【" + strings.Join(items, "，") + "】"
	}
	return mk(keys, vals), mk(keys2, vals2)
}

func (g *zgen) jsonValue(depth int) string {
	if depth <= 0 {
		return pick(g.t, []string{"1", "2", `"s"`, "true", "null", "3.5"})
	}
	switch g.t.Draw(4) {
	case 0, 1:
		return pick(g.t, []string{"1", "2", `"s"`, "true", "null", "3.5"})
	case 2:
		return g.jsonObj(depth - 1)
	}
	n := g.t.Draw(3)
	var it []string
	for i := 0; i < n; i++ {
		it = append(it, g.jsonValue(depth-1))
	}
	return "[" + strings.Join(it, ",") + "]"
}

func (g *zgen) jsonObj(depth int) string {
	ks := g.keys()
	var it []string
	for _, k := range ks {
		it = append(it, fmt.Sprintf(`"%s":%s`, k, g.jsonValue(depth)))
	}
	return "{" + strings.Join(it, ",") + "}"
}

// snippet emits a few lines that display something.
func (g *zgen) snippet(lines *[]string, usesJSON *bool) {
	add := func(s string) { *lines = append(*lines, s) }
	switch g.t.Draw(18) {
	case 17: // a member that does not exist, on an object whose members are named alike (error texts may quote neighbours)
		cls := "类" + g.v()
		add(fmt.Sprintf("定义%s：\n\t其宽度 = 1\n\t其高度 = 2\n\t其深度 = 3\n\n\t如何求面积？\n\t\t输出1\n\n\t如何求体积？\n\t\t输出2\n\n\t如何求周长？\n\t\t输出3\n", cls))
		o := g.v()
		add(fmt.Sprintf("令%s = （新建%s）", o, cls))
		add(pick(g.t, []string{
			fmt.Sprintf("（显示：%s 之 长度）", o), fmt.Sprintf("%s 之 长度 = 5", o), fmt.Sprintf("（显示：以%s（求容积））", o),
			fmt.Sprintf("（显示：%s 之 度）", o), fmt.Sprintf("（显示：以%s（求面））", o), fmt.Sprintf("（显示：%s 之 宽高度）", o),
		}))
	case 16: // dictionaries holding values that cannot be compared (functions, objects, classes) next to entries that differ
		cls := "类" + g.v()
		add(fmt.Sprintf("定义%s：\n\t其名 = “n”\n", cls))
		o := g.v()
		add(fmt.Sprintf("令%s = （新建%s）", o, cls))
		odd := []string{"显示", o, cls, "取随机数"}
		ks := g.keys()
		if len(ks) < 2 {
			ks = append(ks, "补", "充")
		}
		mk := func(diffAt int) string {
			var it []string
			for i, k := range ks {
				v := fmt.Sprintf("%d", i)
				if i == diffAt {
					v = "“异”"
				}
				if i%2 == 0 && i != diffAt {
					v = odd[(i/2)%len(odd)]
				}
				it = append(it, fmt.Sprintf("“%s” = %s", k, v))
			}
			return "【" + strings.Join(it, "，") + "】"
		}
		x, y := g.v(), g.v()
		add(fmt.Sprintf("令%s = %s", x, mk(-1)))
		add(fmt.Sprintf("令%s = %s", y, mk(1+2*g.t.Draw((len(ks)+1)/2))))
		for _, op := range []string{"为", "不为"} {
			add(fmt.Sprintf("（显示：%s %s %s）", x, op, y))
		}
		add(fmt.Sprintf("（显示：以【%s】（%s：%s））", x, pick(g.t, []string{"包含", "寻找"}), y))
	case 15: // in-place methods on numbers that were never copied: parameters, 得到 results, loop variables
		// (whatever a program does to them must not outlive the statement sequence that did it:
		// the same program text is executed again and again in this process)
		n := []string{"0", "1", "6", "-5", "255", "256", "257", "1000", "2.5", "-0", "20 + 22", "3 * 2"}[g.t.Draw(12)]
		m := pick(g.t, []string{"自增", "自减"})
		switch g.t.Draw(4) {
		case 0:
			f := "函" + g.v()
			add(fmt.Sprintf("如何%s？\n\t输入N\n\t以N（%s：%d）\n\t输出N\n", f, m, 1+g.t.Draw(3)))
			add(fmt.Sprintf("（显示：（%s：%s）、（%s：%s）、%s）", f, n, f, n, n))
		case 1:
			f, r := "函"+g.v(), g.v()
			add(fmt.Sprintf("如何%s？\n\t输入A、B\n\t输出A + B\n", f))
			add(fmt.Sprintf("（%s：%s、0）得到%s", f, n, r))
			add(fmt.Sprintf("以%s（%s：2）", r, m))
			add(fmt.Sprintf("（显示：%s、（%s：%s、0）、%s）", r, f, n, n))
		case 2:
			l, last := g.v(), g.v()
			add(fmt.Sprintf("令%s = 【“甲”，“乙”，“丙”，%s】", l, n))
			add(fmt.Sprintf("令%s = 0", last))
			add(fmt.Sprintf("以序、项遍历%s：\n\t以序（%s：10）\n\t%s = 序", l, m, last))
			add(fmt.Sprintf("（显示：%s、%s）", last, l))
			add(fmt.Sprintf("以序、项遍历%s：\n\t（显示：序）", l))
		case 3:
			d := g.v()
			add(fmt.Sprintf("令%s = 【“k” = %s，“m” = 【%s，%s】】", d, n, n, n))
			add(fmt.Sprintf("以%s # “k”（%s：1）", d, m))
			add(fmt.Sprintf("以%s # “m” # 0（%s：1）", d, m))
			add(fmt.Sprintf("（显示：%s、%s、%s 之 数目、以【1，2】（寻找：9））", d, n, d))
		}
	case 14: // an error raised before the callee has run a statement, after earlier calls at other lines
		f := "函" + g.v()
		add(fmt.Sprintf("如何%s？\n\t输入甲\n\t输出甲 + 1\n", f))
		n := 1 + g.t.Draw(4)
		for i := 0; i < n; i++ {
			add(fmt.Sprintf("（显示：（%s：%d））", f, i))
			if g.t.Draw(2) == 1 {
				add("注：间隔")
			}
		}
		add(pick(g.t, []string{fmt.Sprintf("（显示：（%s：1、2））", f), fmt.Sprintf("（显示：（%s））", f), fmt.Sprintf("令非 = 5\n（显示：（非：1））")}))
	case 13: // keys that spell the same number differently, indexed by number and by text
		spell := [][]string{{"1", "1.0", "1.00", "01", "1*10^0"}, {"2000", "2*10^3", "2000.0", "2e3"}, {"0", "0.0", "-0", "00"}}[g.t.Draw(3)]
		num := []string{"1", "2000", "0"}[0]
		switch spell[0] {
		case "2000":
			num = "2000"
		case "0":
			num = "0"
		}
		d := g.v()
		var pairs []string
		skipPlain := g.t.Draw(2) == 1 // whether the plain spelling itself is a key
		for i, k := range spell {
			if i == 0 && skipPlain {
				continue
			}
			if g.t.Draw(4) != 0 {
				pairs = append(pairs, fmt.Sprintf("“%s” = “值%d”", k, i))
			}
		}
		if len(pairs) == 0 {
			pairs = append(pairs, fmt.Sprintf("“%s” = “值”", spell[1]))
		}
		add(fmt.Sprintf("令%s = 【%s】", d, strings.Join(pairs, "，")))
		add(fmt.Sprintf("（显示：%s）", d))
		add(fmt.Sprintf("%s # %s = “新”", d, num))
		add(fmt.Sprintf("（显示：%s、%s # %s）", d, d, num))
	case 12: // deeply nested values (linked lists of dictionaries) that differ in one node: depth is a size like any other
		depth := []int{3, 30, 63, 64, 65, 66, 100, 200}[g.t.Draw(8)]
		diffAt := g.t.Draw(depth)
		chain := func(diff bool) string {
			var sb strings.Builder
			for i := 0; i < depth; i++ {
				mark := "t"
				if diff && i == diffAt {
					mark = "T"
				}
				fmt.Fprintf(&sb, "【“标” = “%s”，“下” = ", mark)
			}
			sb.WriteString("空")
			for i := depth - 1; i >= 0; i-- {
				fmt.Fprintf(&sb, "，“值” = %d】", i)
			}
			return sb.String()
		}
		a, b, c := g.v(), g.v(), g.v()
		add(fmt.Sprintf("令%s = %s", a, chain(false)))
		add(fmt.Sprintf("令%s = %s", b, chain(true)))
		add(fmt.Sprintf("令%s = %s", c, chain(false)))
		add(fmt.Sprintf("（显示：%s 为 %s）", a, b))
		add(fmt.Sprintf("（显示：%s 不为 %s）", a, b))
		r1, r2, r3 := g.v(), g.v(), g.v()
		add(fmt.Sprintf("令%s = 以【%s，%s】（包含：%s）", r1, b, c, a))
		add(fmt.Sprintf("令%s = 以【%s】（寻找：%s）", r2, b, a))
		add(fmt.Sprintf("令%s = 以【%s】（包含：%s）", r3, b, a))
		add(fmt.Sprintf("（显示：%s、%s、%s）", r1, r2, r3))
		add(fmt.Sprintf("（显示：%s 为 %s）", a, c))
	case 11: // the same list / dictionary element reachable under two entries (by-reference paths: 写入, a variable used twice in a literal)
		*usesJSON = true
		l, d := g.v(), g.v()
		add(fmt.Sprintf("令%s = %s", l, pick(g.t, []string{"【1，2】", g.dict(0, nil), "【【1】，【“k” = 1】】"})))
		add(fmt.Sprintf("令%s = 【=】", d))
		ks := g.keys()
		for i, k := range ks {
			if i < 3 {
				add(fmt.Sprintf("以%s（写入：“%s”、%s）", d, k, l))
			}
		}
		add(fmt.Sprintf("（显示：（生成JSON：%s））", d))
		add(fmt.Sprintf("（显示：（生成JSON：【“a” = %s，“b” = %s，“c” = 【%s，%s】】））", l, l, l, l))
		add(fmt.Sprintf("（显示：%s）", d))
		// … and compared with independently built values that agree with it under one key and
		// differ under another: equality is a function of the contents, whatever is shared
		sh := g.v()
		add(fmt.Sprintf("令%s = 【“k” = 1，“m” = 【1，2】】", sh))
		e := g.v()
		add(fmt.Sprintf("令%s = 【=】", e))
		for _, k := range []string{"甲", "乙", "丙"} {
			add(fmt.Sprintf("以%s（写入：“%s”、%s）", e, k, sh))
		}
		same, other := "【“k” = 1，“m” = 【1，2】】", "【“k” = 1，“m” = 【1，3】】"
		for i := 0; i < 3; i++ {
			vals := []string{same, same, same}
			vals[g.t.Draw(3)] = other
			add(fmt.Sprintf("（显示：%s 为 【“甲” = %s，“乙” = %s，“丙” = %s】）", e, vals[0], vals[1], vals[2]))
		}
		add(fmt.Sprintf("（显示：%s 为 【“甲” = %s，“乙” = %s，“丙” = %s】、【%s，%s】 为 【%s，%s】）", e, same, same, same, sh, sh, same, other))
	case 10: // display texts of objects, classes, methods, exceptions: nothing in them may depend on an address
		cls := "类" + g.v()
		add(fmt.Sprintf("定义%s：\n\t其名 = “n”\n\n\t如何叫？\n\t\t输出此\n", cls))
		x := g.v()
		add(fmt.Sprintf("令%s = （新建%s）", x, cls))
		y := g.v()
		add(fmt.Sprintf("令%s = 以%s（叫）", y, x))
		add(fmt.Sprintf("（显示：%s、%s、显示、取随机数、异常、%s、【%s，%s】、【“物” = %s】）", x, cls, y, x, cls, x))
		add("（显示：（新建异常：“文”））")
	case 9: // values with no JSON form (objects of different classes, methods) inside dictionaries
		*usesJSON = true
		ca, cb := "类"+g.v(), "类"+g.v()
		add(fmt.Sprintf("定义%s：\n\t其名 = “a”\n", ca))
		add(fmt.Sprintf("定义%s：\n\t其名 = “b”\n", cb))
		x, y := g.v(), g.v()
		add(fmt.Sprintf("令%s = （新建%s）", x, ca))
		add(fmt.Sprintf("令%s = （新建%s）", y, cb))
		ks := g.keys()
		var items []string
		for i, k := range ks {
			v := []string{x, y, "显示", g.scalar()}[(i+g.t.Draw(4))%4]
			items = append(items, fmt.Sprintf("“%s” = %s", k, v))
		}
		d := g.v()
		add(fmt.Sprintf("令%s = 【%s】", d, strings.Join(items, "，")))
		add(fmt.Sprintf("（显示：（生成JSON：%s））", pick(g.t, []string{d, "【“外” = " + d + "，“列” = 【" + d + "】】"})))
	case 0: // dictionary comparison
		a, b := g.dictPair(1)
		x, y := g.v(), g.v()
		add(fmt.Sprintf("令%s = %s", x, a))
		add(fmt.Sprintf("令%s = %s", y, b))
		op := pick(g.t, []string{"为", "不为", "=="})
		add(fmt.Sprintf("（显示：%s %s %s）", x, op, y))
	case 1: // list of dictionaries: 包含 / 寻找
		a, b := g.dictPair(0)
		c := g.dict(0, nil)
		x := g.v()
		add(fmt.Sprintf("令%s = 【%s，%s】", x, c, a))
		add(fmt.Sprintf("（显示：以%s（%s：%s））", x, pick(g.t, []string{"包含", "寻找"}), b))
	case 2: // nested dictionaries compared
		a, b := g.dictPair(2)
		add(fmt.Sprintf("（显示：【“外” = %s，“二” = 1】 为 【“外” = %s，“二” = 1】）", a, b))
	case 3: // JSON parse → display, keys, regenerate
		*usesJSON = true
		x := g.v()
		add(fmt.Sprintf("令%s = （解析JSON：“%s”）", x, g.jsonObj(2)))
		switch g.t.Draw(4) {
		case 0:
			add(fmt.Sprintf("（显示：%s）", x))
		case 1:
			add(fmt.Sprintf("（显示：%s 之 所有索引）", x))
		case 2:
			add(fmt.Sprintf("（显示：（生成JSON：%s））", x))
		case 3:
			add(fmt.Sprintf("以K、V遍历%s：\n\t（显示：K、V）", x))
		}
	case 4: // dictionary mutators then order-sensitive reads
		x := g.v()
		add(fmt.Sprintf("令%s = %s", x, g.dict(0, nil)))
		n := 1 + g.t.Draw(4)
		for i := 0; i < n; i++ {
			k := pick(g.t, c11Keys)
			switch g.t.Draw(3) {
			case 0:
				add(fmt.Sprintf("以%s（写入：“%s”、%s）", x, k, g.scalar()))
			case 1:
				add(fmt.Sprintf("以%s（移除：“%s”）", x, k))
			case 2:
				add(fmt.Sprintf("%s # “%s” = %s", x, k, g.scalar()))
			}
		}
		add(fmt.Sprintf("（显示：%s、%s 之 所有索引、%s 之 所有值、%s 之 数目）", x, x, x, x))
		if g.t.Draw(2) == 1 {
			y := g.v()
			add(fmt.Sprintf("令%s = %s", y, x))
			add(fmt.Sprintf("（显示：%s）", y))
		}
	case 5: // object with several properties
		cls := fmt.Sprintf("类型%s", g.v())
		var ks []string
		for _, k := range g.keys() {
			ok := true
			for _, bad := range []string{" ", ".", "Ａ", "长"} {
				if strings.Contains(k, bad) {
					ok = false
				}
			}
			if ok {
				ks = append(ks, k) // only keys that are valid as part of a property name
			}
		}
		if len(ks) == 0 {
			ks = []string{"甲"}
		}
		add(fmt.Sprintf("定义%s：", cls))
		for _, k := range ks {
			add(fmt.Sprintf("\t其P%s = %s", k, g.value(1)))
		}
		add("")
		x := g.v()
		add(fmt.Sprintf("令%s = （新建%s）", x, cls))
		for _, k := range ks {
			add(fmt.Sprintf("（显示：%s 之 P%s）", x, k))
		}
	case 6: // arithmetic / text noise: must be boringly deterministic
		add(fmt.Sprintf("（显示：%d + %d * %d、“%s”）", g.t.Draw(9), g.t.Draw(9), g.t.Draw(9), pick(g.t, c11Keys)))
	case 7: // comparing dictionaries of different key sets / sizes
		x, y := g.dict(0, nil), g.dict(0, nil)
		add(fmt.Sprintf("（显示：%s 为 %s、%s 不为 %s）", x, y, y, x))
	case 8: // generate JSON from a literal
		*usesJSON = true
		add(fmt.Sprintf("（显示：（生成JSON：%s））", g.dict(2, nil)))
	}
}

func (g *zgen) program() string {
	var lines []string
	usesJSON := false
	n := 1 + g.t.Draw(4)
	for i := 0; i < n; i++ {
		g.snippet(&lines, &usesJSON)
	}
	if g.t.Draw(3) == 0 {
		lines = append(lines, "输出"+g.dict(1, nil))
	}
	src := strings.Join(lines, "\n") + "\n"
	if usesJSON {
		src = "导入《@JSON》\n\n" + src
	}
	return src
}

var c11Funcs = []string{"求和", "求差", "问好", "计数", "取名", "比较"}

// moduleProgram: a main file importing 1-3 modules (all exports or a list) whose export
// names may collide with each other or with names main declares.
func (g *zgen) moduleProgram(sc *c11Scenario) {
	sc.Modules = map[string]string{}
	nm := 1 + g.t.Draw(3)
	var imports []string
	for m := 0; m < nm; m++ {
		name := fmt.Sprintf("模块%d", m+1)
		nf := 2 + g.t.Draw(4)
		start := g.t.Draw(len(c11Funcs))
		var body []string
		var names []string
		for i := 0; i < nf; i++ {
			fn := c11Funcs[(start+i)%len(c11Funcs)]
			names = append(names, fn)
			body = append(body, fmt.Sprintf("如何%s？\n\t输出“%s·%s”\n", fn, name, fn))
		}
		if g.t.Draw(3) == 0 {
			body = append(body, fmt.Sprintf("定义货物%d：\n\t其名 = “货”\n", m))
		}
		if g.t.Draw(5) == 4 {
			// a module that imports a library itself (its exports stay private to the module)
			body = append([]string{"导入《" + pick(g.t, []string{"@JSON", "@文件", "@共甲"}) + "》\n"}, body...)
		}
		sc.Modules[name] = strings.Join(body, "\n")
		if g.t.Draw(4) == 0 {
			imports = append(imports, fmt.Sprintf("导入“%s”的%s", name, strings.Join(names[:1+g.t.Draw(len(names))], "、")))
		} else {
			imports = append(imports, fmt.Sprintf("导入“%s”", name))
		}
	}
	switch g.t.Draw(6) {
	case 1:
		imports = append(imports, "导入《@JSON》")
	case 2: // the same library imported twice: every export collides
		lib := pick(g.t, []string{"@JSON", "@文件", "@共甲"})
		imports = append(imports, "导入《"+lib+"》", "导入《"+lib+"》")
	case 3: // two libraries that share several export names
		imports = append(imports, "导入《@共甲》", "导入《@共乙》")
	case 4:
		imports = append(imports, "导入《@共乙》", "导入《@文件》", "导入《@共甲》")
	}
	// the textual order of the imports is drawn too (libraries before, between, after modules)
	for a := len(imports) - 1; a > 0; a-- {
		b := a - g.t.Draw(a+1)
		imports[a], imports[b] = imports[b], imports[a]
	}
	var lines []string
	lines = append(lines, imports...)
	lines = append(lines, "")
	for i := 0; i < 1+g.t.Draw(3); i++ {
		lines = append(lines, fmt.Sprintf("（显示：（%s））", pick(g.t, c11Funcs)))
	}
	// a directory listing is external data too: the order in which the file system hands the
	// entries out (drawn by the simulated disk) is nothing the result may depend on
	if g.t.Draw(4) == 3 {
		sc.DirFiles = []int{2, 7, 1023, 1024, 1025, 2600}[g.t.Draw(6)]
		if !strings.Contains(strings.Join(lines, "\n"), "导入《@文件》") {
			lines = append([]string{"导入《@文件》"}, lines...)
		}
		// (right after the imports: the calls drawn above often end the program with an error)
		at := 0
		for at < len(lines) && strings.HasPrefix(lines[at], "导入") {
			at++
		}
		listing := []string{"", "令列 = （读取目录：“/proj/数据”）", "（显示：列 之 长度、列 之 首项、列 之 末项）", "（显示：列）"}
		lines = append(lines[:at], append(listing, lines[at:]...)...)
	}
	sc.Main = strings.Join(lines, "\n") + "\n"
}

var c11Hdr = []string{"X-Alpha", "X-Beta", "Accept", "User-Agent", "X-Trace", "Content-Type"}
var c11Qs = []string{"a", "b", "id", "页", "q"}

func (g *zgen) httpScenario(sc *c11Scenario) {
	nh := 1 + g.t.Draw(5)
	st := g.t.Draw(len(c11Hdr))
	for i := 0; i < nh; i++ {
		sc.Headers = append(sc.Headers, [2]string{c11Hdr[(st+i)%len(c11Hdr)], pick(g.t, []string{"1", "text/plain", "x"})})
	}
	nq := g.t.Draw(5)
	st = g.t.Draw(len(c11Qs))
	for i := 0; i < nq; i++ {
		sc.Query = append(sc.Query, [2]string{c11Qs[(st+i)%len(c11Qs)], pick(g.t, []string{"1", "v", ""})})
	}
	// the number of names is a size like any other: a request may carry hundreds or thousands
	if x := g.t.Draw(8); x >= 6 {
		many := []int{999, 1000, 1001, 1500, 64, 65}[g.t.Draw(6)]
		for i := 0; i < many; i++ {
			if x == 6 {
				sc.Query = append(sc.Query, [2]string{fmt.Sprintf("p%04d", i), "1"})
			} else {
				sc.Headers = append(sc.Headers, [2]string{fmt.Sprintf("X-H%04d", i), "1"})
			}
		}
	}
	expr := pick(g.t, []string{
		"当前请求 之 头部", "当前请求 之 查询参数",
		"头 之 所有索引", "参 之 所有索引",
		"参 之 所有值", "当前请求 之 路径",
	})
	mode := g.t.Draw(5)
	switch mode {
	case 3, 4:
		// the program answers with an HTTP响应 whose header dictionary it builds itself: several
		// names, some of them equal up to letter case (one header on the wire, several values —
		// their order is observable by the client)
		names := []string{"X-Trace", "x-trace", "X-TRACE", "Set-Cookie", "set-cookie", "Content-Type", "content-type", "X-乙", "Vary", "vary"}
		nk := 2 + g.t.Draw(5)
		st := g.t.Draw(len(names))
		var kv []string
		for i := 0; i < nk; i++ {
			kv = append(kv, fmt.Sprintf("“%s” = “值%d”", names[(st+i)%len(names)], i))
		}
		body := pick(g.t, []string{"“体”", "【“b” = 1，“a” = 【“z” = 1，“y” = 2】】", "【3，2，1】", "12"})
		hd := "【" + strings.Join(kv, "，") + "】"
		if mode == 3 {
			sc.Main = fmt.Sprintf("导入《@HTTP》\n输入当前请求\n输出（新建HTTP响应：%d、%s、%s）\n", []int{200, 201, 404}[g.t.Draw(3)], body, hd)
		} else {
			// headers added one by one to the default dictionary of the response
			var ls []string
			for i := 0; i < nk; i++ {
				ls = append(ls, fmt.Sprintf("以响 之 头部（写入：“%s”、“值%d”）", names[(st+i)%len(names)], i))
			}
			sc.Main = fmt.Sprintf("导入《@HTTP》\n输入当前请求\n令响 = （新建HTTP响应：200、%s）\n%s\n输出响\n", body, strings.Join(ls, "\n"))
		}
	case 0:
		sc.Main = fmt.Sprintf("输入当前请求\n令头 = 当前请求 之 头部\n令参 = 当前请求 之 查询参数\n输出%s\n", expr)
	case 1:
		sc.Main = fmt.Sprintf("输入当前请求\n令头 = 当前请求 之 头部\n令参 = 当前请求 之 查询参数\n（显示：%s）\n输出“ok”\n", expr)
	case 2:
		sc.Main = fmt.Sprintf("输入当前请求\n令R = %s\n以K、V遍历R：\n\t（显示：K、V）\n输出“done”\n", pick(g.t, []string{"当前请求 之 头部", "当前请求 之 查询参数"}))
	}
}

func (g *zgen) exprScenario(sc *c11Scenario) {
	sc.Exprs = map[string]string{}
	n := 2 + g.t.Draw(3)
	for i := 0; i < n; i++ {
		var e string
		switch g.t.Draw(4) {
		case 0:
			e = fmt.Sprintf("%d + %d", g.t.Draw(5), g.t.Draw(5))
		case 1:
			e = fmt.Sprintf("未定义%d", i) // fails: error 42 naming this entry
		case 2:
			e = fmt.Sprintf("%d / 0", i+1) // fails
		case 3:
			e = g.dict(0, nil)
		}
		sc.Exprs[fmt.Sprintf("变量%d", i)] = e
	}
}

// c11Exec executes the scenario once in the given world and returns its observable outcome.
func c11Exec(w *zsim.World, sc *c11Scenario) string {
	switch sc.Kind {
	case "script":
		return runScript(w, newInterp(), sc.Main, nil).String()
	case "modules":
		d := zsim.NewDisk(w)
		d.Put("/proj/main.zn", []byte(sc.Main))
		for n, src := range sc.Modules {
			d.Put("/proj/"+n+".zn", []byte(src))
		}
		if sc.DirFiles > 0 {
			d.MkdirAll("/proj/数据")
			for i := 0; i < sc.DirFiles; i++ {
				d.Put(fmt.Sprintf("/proj/数据/件%05d.txt", (i*7919)%100003), []byte("x"))
			}
		}
		return runFile(w, newInterp(sharedLibs()...), "/proj/main.zn", nil).String()
	case "http":
		d := zsim.NewDisk(w)
		d.Put("/srv/entry.zn", []byte(sc.Main))
		q := url.Values{}
		for _, kv := range sc.Query {
			q.Add(kv[0], kv[1])
		}
		req := httptest.NewRequest("GET", "http://sim.local/path?"+q.Encode(), nil)
		req.Header = http.Header{}
		for _, kv := range sc.Headers {
			req.Header.Add(kv[0], kv[1])
		}
		rec := httptest.NewRecorder()
		h := server.NewZnHttpHandler(newInterp(), "/srv/entry.zn")
		res := execute(w, func() (el rElement, err error) { h.ServeHTTP(rec, req); return nil, nil })
		// response headers are a Go map on the wire side: compare them canonically
		var hk []string
		for k, v := range rec.Header() {
			hk = append(hk, k+"="+strings.Join(v, "|"))
		}
		sort.Strings(hk)
		return fmt.Sprintf("status=%d hdr=%v body=%q display=%q panic=%q", rec.Code, hk, rec.Body.String(), strings.Join(res.Display, "\n"), res.Panic)
	case "exprs":
		res := execute(w, func() (rElement, error) {
			m, err := exec.ExecExpressionInputText(sc.Exprs)
			if err != nil {
				return nil, err
			}
			var ks []string
			for k := range m {
				ks = append(ks, k)
			}
			sort.Strings(ks)
			var parts []string
			for _, k := range ks {
				parts = append(parts, k+"="+m[k].String())
			}
			return strResult(strings.Join(parts, ";")), nil
		})
		return res.String()
	}
	return "?"
}

// c11RefMain: `h C11ref` — executes one scenario (JSON on stdin) with the canonical order in
// this fresh OS process and prints its outcome: addresses, time and process state differ from
// the parent's, the outcome must not.
func c11RefMain() {
	var sc c11Scenario
	if err := json.NewDecoder(os.Stdin).Decode(&sc); err != nil {
		fmt.Fprintln(os.Stderr, err)
		os.Exit(2)
	}
	w := zsim.NewWorld(zsim.NewTape(1))
	w.Enter()
	out := c11Exec(w, &sc)
	w.Leave()
	json.NewEncoder(os.Stdout).Encode(out)
}

func c11FreshProcess(sc *c11Scenario) (string, error) {
	b, _ := json.Marshal(sc)
	cmd := osexec.Command(os.Args[0], "C11ref")
	cmd.Stdin = bytes.NewReader(b)
	var out, errb bytes.Buffer
	cmd.Stdout, cmd.Stderr = &out, &errb
	if err := cmd.Run(); err != nil {
		return "", fmt.Errorf("%v: %s", err, errb.String())
	}
	var res string
	if err := json.Unmarshal(out.Bytes(), &res); err != nil {
		return "", err
	}
	return res, nil
}

func runC11(t *zsim.Tape, cfg *hlib.Config) *hlib.Outcome {
	K := cfg.Int("orders", 6)
	g := &zgen{t: t}
	sc := &c11Scenario{Orders: K}
	switch t.Draw(8) {
	case 0, 1, 2, 3:
		sc.Kind = "script"
		sc.Main = g.program()
	case 4, 5:
		sc.Kind = "modules"
		g.moduleProgram(sc)
	case 6:
		sc.Kind = "http"
		g.httpScenario(sc)
	case 7:
		sc.Kind = "exprs"
		g.exprScenario(sc)
	}
	out := &hlib.Outcome{Scenario: sc, Faults: map[string]int{}, Probes: map[string]int{}, Note: map[string]int{}}
	// reference: canonical order
	w0 := zsim.NewWorld(t)
	w0.Enter()
	ref := c11Exec(w0, sc)
	w0.Leave()
	hits := w0.MapHits
	out.Evals = 1
	for s, n := range hits {
		out.Note["site:"+s] += n
	}
	if len(hits) == 0 {
		out.Trivial = true
	}
	out.Keys = append(out.Keys, hlib.Hash(sc.Kind, sc.Main, fmt.Sprint(sc.Modules), fmt.Sprint(sc.Headers), fmt.Sprint(sc.Query), fmt.Sprint(sc.Exprs)))
	sc.Sorted = ref
	if strings.Contains(ref, "语法错误") {
		// a scenario that does not even parse exercises nothing: count it, and fail loudly if
		// the generator produces many of them (see the driver's evidence / selftest)
		out.Note["scenarios-with-syntax-error(generator defect)"]++
		out.Trivial = true
	}
	if strings.Contains(ref, "panic=\"") && !strings.Contains(ref, "panic=\"\"") {
		// a host panic is C10's business; determinism is still checked below
		out.Note["panic-seen"]++
	}
	// one scenario in sixteen is also executed in a second, freshly exec'ed OS process
	if t.Draw(16) == 15 {
		out.Note["cross-process-comparisons"]++
		other, err := c11FreshProcess(sc)
		if err != nil {
			out.Sig = "harness:fresh-process-failed"
			out.Detail = err.Error()
			return out
		}
		if other != ref {
			sc.Other = other
			out.Sig = "cross-process:" + sc.Kind
			out.Detail = fmt.Sprintf("the same scenario with the same (canonical) map order gives a different observable outcome in a fresh OS process: something depends on addresses, time or process state\n  this process : %s\n  fresh process: %s", ref, other)
			return out
		}
	}
	for k := 0; k < K; k++ {
		w := zsim.NewWorld(t)
		w.MapMode = zsim.MapTape
		w.Enter()
		got := c11Exec(w, sc)
		w.Leave()
		out.Evals++
		for s, n := range w.MapPermute {
			out.Note["permuted:"+s] += n
			out.Faults["maporder.permuted"] += n
		}
		if got != ref {
			// attribute to a site: permute one site at a time
			site := c11Attribute(t, sc, ref, hits)
			sc.Other = got
			sc.Site = site
			if sc.Kind == "script" && !strings.HasPrefix(site, "multi[") {
				// scenario-level minimisation: drop every line the divergence at this site does not
				// need (deterministic, so a replay arrives at the same minimal program)
				c11MinimiseScript(t, sc, site)
			}
			out.Sig = "maporder:" + site
			out.Detail = fmt.Sprintf("same scenario, different map iteration order at %s ⇒ different observable outcome\n  sorted order : %s\n  other order  : %s", site, sc.Sorted, sc.Other)
			out.Trace = w.Trace()
			return out
		}
	}
	return out
}

// c11Attribute re-executes with exactly one site permuted (reverse, rotations) and names
// the first site (sorted by name) that alone makes the outcome differ.
func c11Attribute(t *zsim.Tape, sc *c11Scenario, ref string, hits map[string]int) string {
	var sites []string
	for s := range hits {
		sites = append(sites, s)
	}
	sort.Strings(sites)
	for _, s := range sites {
		for _, dec := range [][]uint32{{1}, {2, 1}, {2, 2}, {2, 3}, {3, 1, 1, 1, 1}, {3, 0, 1, 0, 1}} {
			// every call at this site gets the same policy: feed a repeating tape
			rep := make([]uint32, 0, 400)
			for len(rep) < 400 {
				rep = append(rep, dec...)
			}
			w := zsim.NewWorld(zsim.ReplayTape(rep))
			w.MapMode = zsim.MapTape
			w.MapOnly = map[string]bool{s: true}
			w.Enter()
			got := c11Exec(w, sc)
			w.Leave()
			if got != ref {
				return s
			}
		}
		// nested iterations may need different orders at different executions of the
		// same site: sample independent order tapes for this site alone
		for i := 0; i < 60; i++ {
			w := zsim.NewWorld(zsim.NewTape(zsim.Mix(0xC11, uint64(i))))
			w.MapMode = zsim.MapTape
			w.MapOnly = map[string]bool{s: true}
			w.Enter()
			got := c11Exec(w, sc)
			w.Leave()
			if got != ref {
				return s
			}
		}
	}
	return "multi[" + strings.Join(sites, ",") + "]"
}

// c11MinimiseScript greedily removes lines of a script scenario while the single-site
// attribution still names the same site.
func c11MinimiseScript(t *zsim.Tape, sc *c11Scenario, site string) {
	lines := strings.Split(strings.TrimRight(sc.Main, "\n"), "\n")
	diverges := func(ls []string) (string, string, bool) {
		cand := &c11Scenario{Kind: "script", Main: strings.Join(ls, "\n") + "\n"}
		w0 := zsim.NewWorld(zsim.NewTape(1))
		w0.Enter()
		ref := c11Exec(w0, cand)
		w0.Leave()
		if strings.Contains(ref, "语法错误") {
			return "", "", false
		}
		if c11Attribute(t, cand, ref, map[string]int{site: 1}) != site {
			return "", "", false
		}
		return cand.Main, ref, true
	}
	for i := len(lines) - 1; i >= 0; i-- {
		if strings.HasPrefix(lines[i], "导入") {
			continue
		}
		cand := append(append([]string{}, lines[:i]...), lines[i+1:]...)
		if _, _, ok := diverges(cand); ok {
			lines = cand
		}
	}
	if main, ref, ok := diverges(lines); ok {
		sc.Main, sc.Sorted = main, ref
		// the "other order" outcome of the minimal program: first order that differs
		for _, dec := range [][]uint32{{1}, {2, 1}, {2, 2}, {2, 3}, {3, 1, 1, 1, 1}} {
			rep := make([]uint32, 0, 400)
			for len(rep) < 400 {
				rep = append(rep, dec...)
			}
			w := zsim.NewWorld(zsim.ReplayTape(rep))
			w.MapMode = zsim.MapTape
			w.MapOnly = map[string]bool{site: true}
			w.Enter()
			got := c11Exec(w, sc)
			w.Leave()
			if got != ref {
				sc.Other = got
				break
			}
		}
	}
}

// sharedLibs: two registered libraries with four export names in common (and two of their own),
// as an embedding application might provide.
func sharedLibs() []*r.Library {
	mk := func(name string, own string) *r.Library {
		lib := r.NewLibrary(name)
		for _, fn := range []string{"合并", "拆分", "计数", "查找", own} {
			fn := fn
			lib.RegisterFunction(fn, value.NewFunction(func(recv r.Element, ps []r.Element) (r.Element, error) {
				return value.NewString(name + "·" + fn), nil
			}))
		}
		return lib
	}
	return []*r.Library{mk("@共甲", "甲独有"), mk("@共乙", "乙独有")}
}
