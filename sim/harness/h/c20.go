package main

// C20 — the prefork master keeps the worker pool within its bounds. The whole server runs
// in one OS process: the real StartMaster / spawnProcess / readNamedPipe /
// maintainChildState in a simulated master process, the real StartWorker / writeProcState
// in every simulated worker process, the real FIFO helpers, RespWriter and
// net/http.ReadRequest; the kernel (processes, FIFO, listening socket, connections, exec,
// exit, kill, clock) is simulated and a seeded scheduler decides every interleaving.

import (
	"bytes"
	"fmt"
	"io"
	"net/http"
	"sort"
	"strings"
	"time"

	"github.com/DemoHn/Zn/pkg/server"
	"github.com/DemoHn/Zn/znverif/hlib"
	"github.com/DemoHn/Zn/znverif/zsim"
)

func init() { registry["C20"] = runC20 }

type c20Req struct {
	Token   string        `json:"token"`
	Client  int           `json:"client"`
	Gap     time.Duration `json:"gap_ns"`
	Script  string        `json:"script"` // instant sleep hang near-timeout panic
	Service time.Duration `json:"service_ns"`
	Abort   string        `json:"abort,omitempty"`          // "" before-send mid-request stall stall-body stall-read
	Upload  time.Duration `json:"slow_upload_ns,omitempty"` // body delivered this long after the headers
	Surplus string        `json:"surplus_bytes,omitempty"`  // sent after the well-formed request on the same connection
	SentAt  time.Duration `json:"-"`
	Resp    string        `json:"-"`
	Done    bool          `json:"-"`
	Refused bool          `json:"-"`
	ConnID  int           `json:"-"`
}

type c20Inv struct {
	Pid        int
	Token      string
	Start, End time.Duration
	Finished   bool
	Script     string
}

type c20Scenario struct {
	InitProcs int       `json:"init_procs"`
	MaxProcs  int       `json:"max_procs"`
	Timeout   int       `json:"timeout_s"`
	Requests  []*c20Req `json:"requests"`
	Kills     []string  `json:"kills"`
	SlowStart bool      `json:"slow_start"`
	StaleEnv  bool      `json:"stale_worker_variables_in_master_env,omitempty"`
	KeepBias  int       `json:"keep_bias"`
	Summary   string    `json:"summary"`
	Events    []string  `json:"kernel_events,omitempty"`
}

type c20Handler struct {
	w       *zsim.World
	scripts map[string]*c20Req
	invs    []*c20Inv
	busy    map[int]*c20Inv
	overlap string
}

func (h *c20Handler) ServeHTTP(rw http.ResponseWriter, r *http.Request) {
	body, _ := io.ReadAll(r.Body)
	token := string(body)
	pid := h.w.K.Getpid()
	inv := &c20Inv{Pid: pid, Token: token, Start: h.w.Now()}
	if other := h.busy[pid]; other != nil && !other.Finished {
		h.overlap = fmt.Sprintf("pid %d serves %q while still serving %q", pid, token, other.Token)
	}
	h.busy[pid] = inv
	h.invs = append(h.invs, inv)
	sc := h.scripts[token]
	if sc != nil {
		inv.Script = sc.Script
		switch sc.Script {
		case "sleep":
			zsim.Sleep(sc.Service)
		case "near-timeout":
			h.w.Fault("request.near-timeout")
			zsim.Sleep(sc.Service)
		case "hang":
			h.w.Fault("request.hang")
			zsim.Block("handler.hang", func() bool { return false })
		case "panic":
			h.w.Fault("request.handler-panic")
			panic("handler panic (injected)")
		case "big":
			// a response several times the size of the socket buffers: the handler is parked in
			// Write for as long as the client does not read
			h.w.Fault("request.big-response")
			rw.Header().Add("Content-Type", "text/plain")
			rw.WriteHeader(200)
			rw.Write(bytes.Repeat([]byte("大"), 100000))
			rw.Write([]byte("served:" + token))
			inv.End = h.w.Now()
			inv.Finished = true
			return
		}
	}
	rw.Header().Add("Content-Type", "text/plain")
	rw.WriteHeader(200)
	rw.Write([]byte("served:" + token))
	inv.End = h.w.Now()
	inv.Finished = true
}

const c20Exe = "/sim/bin/zinc-playground"

func runC20(t *zsim.Tape, cfg *hlib.Config) *hlib.Outcome {
	sc := &c20Scenario{}
	out := &hlib.Outcome{Scenario: sc, Note: map[string]int{}}
	sc.InitProcs = 1 + t.Draw(4)
	sc.MaxProcs = sc.InitProcs + t.Draw(7-sc.InitProcs)
	sc.Timeout = 1 + t.Draw(3)
	// one run in eight uses a pool with room for one or more FULL spawn batches (the master adds
	// workers ten at a time) and a load that saturates it more than once
	large := t.Draw(8) == 7
	if large {
		sc.MaxProcs = 11 + t.Draw(16)
		sc.Timeout = 3
	}
	sc.KeepBias = []int{6, 7, 4, 2}[t.Draw(4)]
	timeout := time.Duration(sc.Timeout) * time.Second

	w := zsim.NewWorld(t)
	w.TraceCap = 6000
	if cfg.Int("schedlog", 0) > 0 {
		w.SchedLog = true
		w.TraceCap = 200000
	}
	w.StartScheduler()
	w.SetKeepBias(sc.KeepBias)
	w.MapMode = zsim.MapTape // the master's two range-over-map sites get tape-chosen orders too
	k := zsim.NewKernel(w)
	w.Enter()
	defer w.Leave()

	h := &c20Handler{w: w, scripts: map[string]*c20Req{}, busy: map[int]*c20Inv{}}
	pmcfg := server.ZnPMServerConfig{InitProcs: sc.InitProcs, MaxProcs: sc.MaxProcs, Timeout: sc.Timeout}
	masterReturned := ""
	progMain := func() {
		srv := server.NewZnPMServer(pmcfg)
		srv.SetHandler(h)
		err := srv.Start("tcp://127.0.0.1:3862")
		if zsim.CurrentProc() != nil && zsim.CurrentProc().PPid == 1 {
			masterReturned = fmt.Sprint(err)
		}
	}
	k.Programs[c20Exe] = progMain

	// ---- fault plan (swarm: each kind enabled in a random subset of runs)
	// (a zero draw always means "not enabled": the empty tape is the fault-free run)
	enKillTime := t.Draw(2) == 1
	enKillAccept := t.Draw(3) == 2
	enKillStart := t.Draw(4) == 3
	enKillAll := t.Draw(6) == 5
	enHang := t.Draw(2) == 1
	enNear := t.Draw(3) == 2
	enPanic := t.Draw(5) == 4
	enAbort := t.Draw(3) == 2
	enStall := t.Draw(4) == 3
	// uploads: complete headers announcing a body that arrives late (within the timeout) or never
	enUpload := t.Draw(4) == 3
	// big responses, to clients that read them or that stop reading (and keep the connection)
	enBig := t.Draw(4) == 3
	// clients that send more than their request: a legacy trailing CRLF, a pipelined second
	// request, a body longer than its Content-Length — one connection serves one request, the
	// surplus belongs to nobody else
	enSurplus := t.Draw(4) == 3
	// a client that stalls for ever pins its worker (the worker has no read deadline); the
	// remaining capacity argument (max-procs minus stallers >= 1) only holds while no worker
	// dies, so this fault is drawn only in runs without any fault that ends a worker
	enStallClient := t.Draw(8) == 7
	if enStallClient {
		enKillTime, enKillAccept, enKillStart, enKillAll, enHang, enNear, enPanic, enAbort = false, false, false, false, false, false, false, false
	}
	stallers := 0
	sc.StaleEnv = t.Draw(4) == 3
	sc.SlowStart = t.Draw(3) == 2
	if sc.SlowStart {
		w.Ext["spawn-delay"] = func(p *zsim.Proc) time.Duration {
			if len(p.Args) < 2 {
				return 0
			}
			d := time.Duration(t.Draw(5)) * 500 * time.Millisecond
			if d > 0 {
				w.Fault("slow-start")
			}
			return d
		}
	}

	// ---- workload
	nClients := 1 + t.Draw(6)
	if large {
		nClients = 12 + t.Draw(14)
	}
	tok := 0
	var reqs []*c20Req
	for c := 0; c < nClients; c++ {
		n := 1 + t.Draw(4)
		for i := 0; i < n; i++ {
			tok++
			r := &c20Req{Token: fmt.Sprintf("T%d", tok), Client: c, Gap: time.Duration(t.Draw(9)) * 250 * time.Millisecond, Script: "instant"}
			if large {
				// long, back-to-back requests: every worker busy, then every worker busy again
				r.Gap = time.Duration(t.Draw(3)) * 50 * time.Millisecond
				r.Script, r.Service = "sleep", time.Duration(5+t.Draw(15))*100*time.Millisecond
				reqs = append(reqs, r)
				h.scripts[r.Token] = r
				continue
			}
			switch x := t.Draw(10); {
			case x <= 3:
			case x <= 6:
				r.Script, r.Service = "sleep", time.Duration(1+t.Draw(9))*100*time.Millisecond
			case x == 7 && enHang:
				r.Script = "hang"
			case x == 8 && enNear:
				r.Script, r.Service = "near-timeout", timeout+time.Duration(t.Draw(5)-2)*time.Millisecond
			case x == 9 && enPanic:
				r.Script = "panic"
			}
			if enAbort && t.Draw(6) == 5 {
				r.Abort = []string{"before-send", "mid-request"}[t.Draw(2)]
			}
			// a client that connects, sends half of its request and then just sits there: it occupies
			// a worker for ever; at most max-procs-1 of them, so that capacity for the others remains
			if enStallClient && stallers < sc.MaxProcs-1 && t.Draw(8) == 7 {
				r.Abort = "stall"
				stallers++
			}
			if enBig && r.Abort == "" && r.Script == "instant" && t.Draw(3) == 2 {
				r.Script = "big"
				if t.Draw(2) == 1 && !enStallClient {
					// the client stops reading after the first bytes: the request outlives --timeout
					// in the middle of the response (a worker-ending fault, see stall-body)
					r.Abort = "stall-read"
				}
			}
			if enSurplus && r.Abort == "" && t.Draw(3) == 2 {
				r.Surplus = []string{"\r\n", "POST /run HTTP/1.1\r\nHost: sim\r\nContent-Length: 2\r\n\r\nXX", "多余的字节", "\r\n\r\n"}[t.Draw(4)]
			}
			if enUpload && r.Abort == "" && t.Draw(4) == 3 {
				if t.Draw(2) == 1 && !enStallClient {
					// (not together with clients that pin workers for ever: this fault ends a worker,
					// and the master only refills up to init-procs)
					// the body never arrives and the connection stays open: the request outlives
					// --timeout, its worker must be terminated and replaced
					r.Abort = "stall-body"
				} else if r.Script == "instant" {
					r.Upload = time.Duration(1+t.Draw(6)) * timeout / 10
				}
			}
			reqs = append(reqs, r)
			h.scripts[r.Token] = r
		}
	}
	sc.Requests = reqs

	// the master's own environment may already hold the variables it hands to its workers (it was
	// launched from inside a worker, or from a unit file that exports them): what the master
	// passes must win
	masterEnv := []string{"PATH=/sim/bin"}
	if sc.StaleEnv {
		masterEnv = append(masterEnv, "ZINC_EXEC_TIMEOUT=30", "ZINC_PIPE_ID=stale-pipe-of-another-master", "ZINC_PREFORK_CHILD=OK", "LANG=C")
		w.Fault("stale-worker-variables-in-master-environment")
	}
	master := k.NewProc("master", 1, []string{c20Exe, "--listen", "tcp://127.0.0.1:3862"}, masterEnv)
	w.Spawn(master, "master-main", progMain)

	// ---- clients
	clientProc := k.NewProc("clients", 1, []string{"clients"}, nil)
	clientsDone := 0
	for c := 0; c < nClients; c++ {
		c := c
		w.Spawn(clientProc, fmt.Sprintf("client%d", c), func() {
			defer func() { clientsDone++ }()
			for _, r := range reqs {
				if r.Client != c {
					continue
				}
				zsim.Sleep(r.Gap)
				zsim.Block("client.wait-listen", func() bool { return len(k.Listeners) > 0 })
				conn, err := k.Dial(k.Listeners[0])
				r.SentAt = w.Now()
				if err != nil {
					r.Refused, r.Done = true, true
					continue
				}
				r.ConnID = conn.ID
				msg := fmt.Sprintf("POST /run HTTP/1.1\r\nHost: sim\r\nContent-Length: %d\r\n\r\n%s", len(r.Token), r.Token)
				switch r.Abort {
				case "before-send":
					w.Fault("client-abort")
					conn.Close()
					r.Done = true
					continue
				case "mid-request":
					w.Fault("client-abort")
					conn.Write([]byte(msg[:len(msg)/2]))
					conn.Close()
					r.Done = true
					continue
				case "stall":
					w.Fault("client-stalls-mid-request")
					conn.Write([]byte(msg[:len(msg)/2]))
					r.Done = true // this client never expects an answer; the connection stays open
					continue
				case "stall-body":
					w.Fault("client-stalls-mid-body")
					conn.Write([]byte(fmt.Sprintf("POST /run HTTP/1.1\r\nHost: sim\r\nContent-Length: %d\r\n\r\n%s", len(r.Token)+64, r.Token)))
					r.Done = true // no answer is expected; the connection stays open
					continue
				}
				if r.Upload > 0 {
					w.Fault("client-slow-upload")
					cut := len(msg) - len(r.Token)
					conn.Write([]byte(msg[:cut]))
					zsim.Sleep(r.Upload)
					conn.Write([]byte(msg[cut:]))
				} else {
					if r.Surplus != "" {
						w.Fault("client-sends-surplus-bytes")
					}
					conn.Write([]byte(msg + r.Surplus))
				}
				var resp []byte
				buf := make([]byte, 4096)
				if r.Abort == "stall-read" {
					w.Fault("client-stops-reading")
					conn.Read(buf[:16])
					r.Done = true // the connection stays open, nothing more is read
					continue
				}
				for {
					n, err := conn.Read(buf)
					resp = append(resp, buf[:n]...)
					if err != nil {
						break
					}
				}
				conn.Close()
				r.Resp = string(resp)
				r.Done = true
			}
		})
	}

	// ---- timed kills
	activeEnd := time.Duration(8+t.Draw(20)) * time.Second
	killWorker := func(why string) {
		live := k.Live(master.Pid)
		if len(live) == 0 {
			return
		}
		p := live[t.Draw(len(live))]
		w.Fault("kill-worker." + why)
		sc.Kills = append(sc.Kills, fmt.Sprintf("%s pid=%d at %s", why, p.Pid, w.Now()))
		k.Kill(p.Pid)
	}
	if enKillTime {
		n := 1 + t.Draw(3)
		for i := 0; i < n; i++ {
			at := time.Duration(t.Draw(int(activeEnd/(100*time.Millisecond)))) * 100 * time.Millisecond
			w.After(at, func() { killWorker("timed") })
		}
	}
	if enStall {
		n := 1 + t.Draw(3)
		for i := 0; i < n; i++ {
			at := time.Duration(t.Draw(int(activeEnd/(100*time.Millisecond)))) * 100 * time.Millisecond
			d := time.Duration(1+t.Draw(20)) * 100 * time.Millisecond
			w.After(at, func() {
				w.Fault("stall-master")
				k.Stall(master, d)
			})
		}
	}
	if enKillAll {
		at := time.Duration(1+t.Draw(int(activeEnd/(100*time.Millisecond)))) * 100 * time.Millisecond
		w.After(at, func() {
			for _, p := range k.Live(master.Pid) {
				w.Fault("kill-worker.all-at-once")
				sc.Kills = append(sc.Kills, fmt.Sprintf("all pid=%d at %s", p.Pid, w.Now()))
				k.Kill(p.Pid)
			}
		})
	}

	// ---- run: active phase with the bound checked after every step
	evSeen := 0
	maxLive := 0
	var i1 string
	killsLeft := 3
	quiet := false
	states := map[string]bool{}
	spawns, spawnSeen := 0, 0
	storm := ""
	inv := func() error {
		// a pool whose workers die as fast as they are started never becomes quiet: no correct run
		// comes near six hundred worker start-ups (start-ups <= init + max + worker exits, and exits
		// are bounded by the injected kills and the requests), so stop there instead of burning
		// the whole step budget
		for ; spawnSeen < len(k.Events); spawnSeen++ {
			if k.Events[spawnSeen].Kind == "spawn" {
				spawns++
			}
		}
		if storm == "" && spawns > 600 {
			storm = fmt.Sprintf("%d worker start-ups by t=%s", spawns, w.Now())
			return fmt.Errorf("storm")
		}
		live := k.Live(master.Pid)
		if len(live) > maxLive {
			maxLive = len(live)
		}
		if len(live) > sc.MaxProcs && i1 == "" {
			i1 = fmt.Sprintf("%d live worker processes at t=%s, --max-procs=%d", len(live), w.Now(), sc.MaxProcs)
			return fmt.Errorf("I1")
		}
		// event-triggered faults (land right after a state change)
		for ; evSeen < len(k.Events); evSeen++ {
			e := k.Events[evSeen]
			if quiet || killsLeft == 0 {
				continue
			}
			switch {
			case e.Kind == "accept" && enKillAccept && t.Draw(5) == 4:
				killsLeft--
				w.Fault("kill-worker.after-accept")
				sc.Kills = append(sc.Kills, fmt.Sprintf("after-accept pid=%d at %s", e.Pid, w.Now()))
				k.Kill(e.Pid)
			case e.Kind == "spawn" && enKillStart && e.Pid != master.Pid && t.Draw(6) == 5:
				killsLeft--
				w.Fault("kill-worker.during-startup")
				sc.Kills = append(sc.Kills, fmt.Sprintf("during-startup pid=%d at %s", e.Pid, w.Now()))
				k.Kill(e.Pid)
			}
		}
		busy := 0
		for _, v := range h.busy {
			if !v.Finished {
				busy++
			}
		}
		bl := 0
		if len(k.Listeners) > 0 {
			bl = k.Listeners[0].Backlog()
		}
		states[fmt.Sprintf("%d/%d/%d", len(live), busy, bl)] = true
		return nil
	}
	quietLen := time.Duration(0)
	res := w.Run(activeEnd, 60000, inv)
	if res.Reason != "invariant" {
		// quiet phase: no new requests or faults, fair scheduling
		quiet = true
		w.SetFair(true)
		// long enough for every request to be served one after another by workers that each
		// run into the timeout, plus a minute: the liveness bounds are loose on purpose
		quietLen = timeout*time.Duration(len(reqs)+1) + 60*time.Second
		res = w.Run(activeEnd+quietLen, 400000, inv)
	}
	quietComplete := res.Reason == "deadline" || res.Reason == "quiescent"
	out.SimTime = w.Now()
	out.Faults = w.Faults
	out.Probes = w.Probes
	out.Trace = w.Trace()
	for _, e := range k.Events {
		if len(sc.Events) < 200 {
			sc.Events = append(sc.Events, fmt.Sprintf("t=%s %s pid=%d %s", e.At, e.Kind, e.Pid, e.Info))
		}
	}
	liveEnd := k.Live(master.Pid)
	sc.Summary = fmt.Sprintf("end=%s reason=%s steps=%d maxLive=%d liveAtEnd=%d masterExited=%v invocations=%d clientsDone=%d/%d", w.Now(), res.Reason, w.Steps(), maxLive, len(liveEnd), master.Exited, len(h.invs), clientsDone, nClients)
	var skeys []string
	for s := range states {
		skeys = append(skeys, "st:"+s)
	}
	sort.Strings(skeys)
	out.Keys = append(skeys, fmt.Sprintf("il:%x", w.Interleaving()))
	out.Note["steps"] = w.Steps()
	for site, n := range w.MapPermute {
		out.Note["permuted:"+site] += n
	}
	out.Note["worker-spawns"] = countEvents(k, "spawn")
	for _, p := range k.Procs() {
		if p.PPid != master.Pid || !p.Exited {
			continue
		}
		switch {
		case p.Killed:
			out.Probes["worker-exit:killed-by-simulator"]++
		case p.ExitCode == 1:
			out.Probes["worker-exit:timeout-or-orphan(status 1)"]++
		case p.ExitCode == 2:
			out.Probes["worker-exit:handler-panic(status 2)"]++
		default:
			out.Probes["worker-exit:accept-loop-returned(status 0)"]++
		}
	}
	if maxLive == sc.MaxProcs && sc.MaxProcs > sc.InitProcs {
		out.Probes["pool-grew-to-max-procs"]++
	}
	if len(liveEnd) == sc.InitProcs {
		out.Probes["quiet-pool-exactly-init-procs"]++
	}
	fail := func(sig, detail string) *hlib.Outcome {
		out.Sig = sig
		out.Detail = detail + "\n  " + sc.Summary
		return out
	}
	// ---- oracles
	if storm != "" {
		return fail("I2:workers-die-and-respawn-without-end", storm+": the pool never settles")
	}
	if i1 != "" {
		return fail("I1:live-workers-exceed-max-procs", i1)
	}
	if res.Reason == "steps" {
		out.Note["step-cap-hit"]++
	}
	if master.Exited {
		site := "returned:" + masterReturned
		for _, e := range k.Events {
			if e.Kind == "fatal" && e.Pid == master.Pid {
				site = e.Info
				if i := strings.Index(site, ":"); i > 0 {
					site = site[:i]
				}
				site = strings.TrimPrefix(site, "github.com/DemoHn/Zn/")
			}
		}
		return fail("I5:master-exit:"+site, fmt.Sprintf("the master process exited (status %d) although nobody signalled it", master.ExitCode))
	}
	if h.overlap != "" {
		return fail("I3:overlapping-requests-in-one-worker", h.overlap)
	}
	seen := map[string]*c20Inv{}
	for _, v := range h.invs {
		if o := seen[v.Token]; o != nil {
			return fail("I3:request-handled-twice", fmt.Sprintf("token %s handled by pid %d and pid %d", v.Token, o.Pid, v.Pid))
		}
		seen[v.Token] = v
	}
	for _, r := range reqs {
		if r.Abort != "" || r.Refused {
			continue
		}
		v := seen[r.Token]
		if r.Resp != "" {
			if !strings.HasPrefix(r.Resp, "HTTP/1.1 200 OK") || !strings.HasSuffix(r.Resp, "served:"+r.Token) {
				return fail("I3:wrong-response", fmt.Sprintf("request %s got response %q", r.Token, r.Resp))
			}
		}
		if !r.Done {
			// still waiting at the end of the quiet phase
			if v != nil && v.Finished && quietComplete {
				if wp := k.Proc(v.Pid); wp != nil && !wp.Killed {
					return fail("I3:response-never-completed", fmt.Sprintf("request %s was handled by pid %d (finished at %s) but its connection was never closed: the client is still waiting for the end of the response %s later", r.Token, v.Pid, v.End, quietLen))
				}
			}
			if v == nil && quietComplete {
				return fail("I3:request-never-served", fmt.Sprintf("request %s (sent at %s, conn %d) was never handled although the system was quiet for %s", r.Token, r.SentAt, r.ConnID, quietLen))
			}
			continue
		}
		if v == nil {
			// connection ended without the handler having run: legitimate only if the accepting worker died
			continue
		}
		wp := k.Proc(v.Pid)
		healthy := r.Script == "instant" || r.Script == "sleep"
		if healthy && v.Finished && r.Resp == "" && wp != nil && !wp.Killed {
			return fail("I3:response-lost", fmt.Sprintf("request %s was served by healthy pid %d but the client got no response", r.Token, v.Pid))
		}
		if healthy && !v.Finished && wp != nil && !wp.Killed && !(wp.Exited) {
			return fail("I3:request-stuck", fmt.Sprintf("request %s is stuck in live pid %d", r.Token, v.Pid))
		}
		if healthy && !v.Finished && wp != nil && wp.Exited && !wp.Killed {
			return fail("I4:healthy-request-disturbed", fmt.Sprintf("request %s (service %s < timeout %s) was cut off: its worker pid %d exited with status %d without being killed by the simulator", r.Token, r.Service, timeout, v.Pid, wp.ExitCode))
		}
	}
	// I4: a request that outlives the timeout ⇒ its worker is gone shortly after
	for _, v := range h.invs {
		// hung requests, and requests that end a moment AFTER the timeout: they have outlived it all
		// the same, their worker is terminated and replaced
		over := v.Script == "near-timeout" && h.scripts[v.Token] != nil && h.scripts[v.Token].Service > timeout
		if v.Script != "hang" && !over {
			continue
		}
		wp := k.Proc(v.Pid)
		if wp == nil {
			continue
		}
		if !wp.Exited && w.Now() > v.Start+timeout+5*time.Second {
			return fail("I4:hung-worker-not-terminated", fmt.Sprintf("pid %d has been serving %s since %s (timeout %s) and is still alive at %s", v.Pid, v.Token, v.Start, timeout, w.Now()))
		}
		if wp.Exited && !wp.Killed && wp.ExitAt > v.Start+timeout+5*time.Second {
			return fail("I4:hung-worker-terminated-late", fmt.Sprintf("pid %d exceeded the timeout at %s but exited only at %s", v.Pid, v.Start+timeout, wp.ExitAt))
		}
	}
	// I4 (uploads): complete headers, a body that never arrives, the connection left open — the
	// request outlives the timeout, so the worker that accepted it must be gone shortly after
	for _, r := range reqs {
		if r.Abort != "stall-body" && r.Abort != "stall-read" {
			continue
		}
		what := "headers complete, body never delivered"
		if r.Abort == "stall-read" {
			what = "a response larger than the socket buffers to a client that stopped reading"
		}
		for _, e := range k.Events {
			if e.Kind != "accept" || e.Info != fmt.Sprintf("conn %d", r.ConnID) {
				continue
			}
			wp := k.Proc(e.Pid)
			if wp != nil && !wp.Exited && w.Now() > e.At+timeout+5*time.Second {
				return fail("I4:stalled-upload-worker-not-terminated", fmt.Sprintf("pid %d accepted request %s (%s) at %s, timeout %s, and is still alive at %s", e.Pid, r.Token, what, e.At, timeout, w.Now()))
			}
			if wp != nil && wp.Exited && !wp.Killed && wp.ExitAt > e.At+timeout+5*time.Second {
				return fail("I4:stalled-upload-worker-terminated-late", fmt.Sprintf("pid %d accepted request %s at %s (timeout %s) but exited only at %s", e.Pid, r.Token, e.At, timeout, wp.ExitAt))
			}
		}
	}
	// I2: back to at least init-procs once quiet
	if len(liveEnd) < sc.InitProcs && quietComplete {
		return fail("I2:pool-below-init-procs-when-quiet", fmt.Sprintf("%d live workers %s after the last fault/request, --init-procs=%d", len(liveEnd), quietLen, sc.InitProcs))
	}
	if !quietComplete {
		out.Note["quiet-phase-cut-by-step-cap(liveness unchecked)"]++
	}
	if len(liveEnd) > sc.MaxProcs {
		return fail("I1:live-workers-exceed-max-procs", fmt.Sprintf("%d live workers when quiet, --max-procs=%d", len(liveEnd), sc.MaxProcs))
	}
	return out
}

func countEvents(k *zsim.Kernel, kind string) int {
	n := 0
	for _, e := range k.Events {
		if e.Kind == kind {
			n++
		}
	}
	return n
}
