package main

// C10 (narrow) — the I/O-facing built-ins and source loading never crash the host,
// whatever the simulated disk does: every call yields a non-nil element or a Zn
// exception that 拦截异常 receives; no Go panic, no nil element, no wrong data.

import (
	"bufio"
	"errors"
	"fmt"
	"io"
	"net/http"
	"net/http/httptest"
	"strings"
	"unicode/utf16"

	"github.com/DemoHn/Zn/pkg/server"
	"github.com/DemoHn/Zn/znverif/hlib"
	"github.com/DemoHn/Zn/znverif/zsim"
)

func init() { registry["C10"] = runC10 }

type c10Scenario struct {
	Kind     string            `json:"kind"`
	Program  string            `json:"program,omitempty"`
	Files    map[string]string `json:"initial_files,omitempty"`
	Faults   []string          `json:"enabled_faults,omitempty"`
	Body     string            `json:"body,omitempty"`
	BodyFail string            `json:"body_fault,omitempty"`
	Wire     string            `json:"request_bytes,omitempty"`
	Outcome  string            `json:"outcome,omitempty"`
	Expected string            `json:"expected,omitempty"`
}

var c10Paths = []string{"/data/a.txt", "/data/b.txt", "/data/sub", "/data/missing.txt", "/data/sub/c.txt", "/nodir/x.txt", "/data"}
var c10Texts = []string{"甲乙丙", "hello", "", "第一行\n第二行", "ZZZZZZZZZZZZZZZZZZZZ"}

// contents a file may already hold when the program starts: not everything on a disk is UTF-8 text
var c10Initial = []string{"甲乙丙", "hello", "", "第一行\n第二行", "\xd6\xd0\xce\xc4", "\xff\xfe\x00\x01bin", "截断\xe4\xb8", "\xef\xbb\xbfBOM文"}

type c10Op struct {
	kind, path, text string
	direct           int // 0: bind to a name then display it; 1: display the call directly; 2: 输出 the call
}

func enableFaults(t *zsim.Tape, d *zsim.Disk, sc *[]string, kinds []string) {
	// swarm: a random subset of fault kinds per run; a third of the runs are fault-free
	if t.Draw(3) == 0 {
		return
	}
	for _, k := range kinds {
		if t.Draw(2) == 1 {
			d.Enabled[k] = true
			*sc = append(*sc, k)
		}
	}
	d.Rate = 2 + t.Draw(5)
	d.MaxFaults = 1 + t.Draw(3)
	if d.Enabled[zsim.FReadShort] {
		d.ReadMode = 1
	}
}

func runC10(t *zsim.Tape, cfg *hlib.Config) *hlib.Outcome {
	sc := &c10Scenario{}
	out := &hlib.Outcome{Scenario: sc}
	w := zsim.NewWorld(t)
	d := zsim.NewDisk(w)
	w.Enter()
	defer w.Leave()
	defer func() { out.Faults = w.Faults; out.Trace = w.Trace() }()
	fail := func(sig, detail string) *hlib.Outcome {
		out.Sig = sig
		out.Detail = detail
		return out
	}
	if cfg.Int("enum", 0) > 0 {
		if e, ok := c10Enum(cfg.RunIndex); ok {
			sc.Kind = "file-builtins(enumerated)"
			out.Note = map[string]int{"enumerated-(op,path,content,use,handler,fault,position)": 1}
			return c10Builtins(t, w, d, sc, out, fail, e)
		}
	}
	switch t.Draw(5) {
	case 0, 1, 2:
		sc.Kind = "file-builtins"
		return c10Builtins(t, w, d, sc, out, fail, nil)
	case 3:
		sc.Kind = "source-loading"
		return c10Loading(t, w, d, sc, out, fail)
	default:
		sc.Kind = "request-body"
		return c10Body(t, w, d, sc, out, fail)
	}
}

// c10EnumCase is one point of the enumerated family: a one-operation program and one fault
// kind forced at one position.
type c10EnumCase struct {
	op      c10Op
	content int // index into c10Initial for /data/a.txt and /data/sub/c.txt, -1 = absent
	handler bool
	fault   string // "" = none
	at      int
}

var c10EnumFaults = append([]string{""}, zsim.AllDiskFaults...)

// c10Enum maps a run index onto (operation x path x initial content x use of the result x
// handler x fault kind x fault position): 3*7*3*3*2*12*2 = 9072 cases.
func c10Enum(idx int) (*c10EnumCase, bool) {
	dims := []int{3, len(c10Paths), 3, 3, 2, len(c10EnumFaults), 2}
	total := 1
	for _, n := range dims {
		total *= n
	}
	if idx >= total {
		return nil, false
	}
	pick := make([]int, len(dims))
	for i, n := range dims {
		pick[i] = idx % n
		idx /= n
	}
	e := &c10EnumCase{}
	e.op.kind = []string{"读取文件", "写入文件", "读取目录"}[pick[0]]
	e.op.path = c10Paths[pick[1]]
	e.op.text = "新内容甲乙"
	e.content = []int{-1, 0, 4}[pick[2]] // absent, valid UTF-8, GBK bytes
	e.op.direct = pick[3]
	e.handler = pick[4] == 1
	e.fault = c10EnumFaults[pick[5]]
	e.at = 1 + pick[6]
	return e, true
}

func c10Builtins(t *zsim.Tape, w *zsim.World, d *zsim.Disk, sc *c10Scenario, out *hlib.Outcome, fail func(string, string) *hlib.Outcome, enum *c10EnumCase) *hlib.Outcome {
	sc.Files = map[string]string{}
	d.MkdirAll("/data/sub")
	model := map[string]string{}
	written := map[string][]string{} // every text ever associated with a path
	if enum != nil {
		if enum.content >= 0 {
			sc.Files["/data/a.txt"] = c10Initial[enum.content]
			sc.Files["/data/sub/c.txt"] = c10Initial[enum.content]
		}
	} else {
		if t.Draw(4) != 0 {
			sc.Files["/data/a.txt"] = c10Initial[t.Draw(len(c10Initial))]
		}
		if t.Draw(2) == 1 {
			sc.Files["/data/sub/c.txt"] = c10Initial[t.Draw(len(c10Initial))]
		}
	}
	for p, s := range sc.Files {
		d.Put(p, []byte(s))
		model[p] = s
		written[p] = append(written[p], s)
	}
	n := 1 + t.Draw(5)
	var ops []c10Op
	if enum != nil {
		n = 1
		ops = append(ops, enum.op)
	}
	for i := 0; i < n && enum == nil; i++ {
		op := c10Op{path: c10Paths[t.Draw(len(c10Paths))]}
		switch t.Draw(4) {
		case 0, 1:
			op.kind = "读取文件"
		case 2:
			op.kind = "写入文件"
			op.text = c10Texts[t.Draw(len(c10Texts))]
		case 3:
			op.kind = "读取目录"
		}
		op.direct = t.Draw(3)
		if op.direct == 2 && i != n-1 {
			op.direct = 1
		}
		ops = append(ops, op)
	}
	handler := t.Draw(2) == 1
	if enum != nil {
		handler = enum.handler
	}
	hasMem := false
	if enum == nil && t.Draw(4) == 3 {
		// a directory entry whose name is not UTF-8 (names are bytes on a POSIX file system)
		sc.Files["/data/caf\xe9"] = "x"
		d.Put("/data/caf\xe9", []byte("x"))
	}
	var lines []string
	lines = append(lines, "导入《@文件》", "")
	for i, op := range ops {
		call := fmt.Sprintf("（%s：“%s”）", op.kind, op.path)
		if op.kind == "写入文件" {
			call = fmt.Sprintf("（%s：“%s”、“%s”）", op.kind, op.path, op.text)
		}
		switch op.direct {
		case 0:
			lines = append(lines, fmt.Sprintf("令R%d = %s", i, call), fmt.Sprintf("（显示：“op%d”、R%d）", i, i))
			// what came from the disk is then USED: members of the text / list that was read
			if enum == nil && op.kind != "写入文件" && t.Draw(3) == 2 {
				hasMem = true
				var use string
				if op.kind == "读取文件" {
					use = pick(t, []string{"R%d 之 字符组", "R%d 之 长度", "R%d 之 字数", "以R%d（取样：1、2）", "以R%d（分隔：“，”）", "以R%d（去除空格）", "以R%d（转换数值）", "以R%d（拼接：“尾”）"})
				} else {
					use = pick(t, []string{"以R%d（拼接：“、”）", "R%d 之 数目", "R%d 之 首项", "（R%d 之 首项） 之 字符组", "（R%d 之 末项） 之 长度", "R%d 之 逆序"})
				}
				lines = append(lines, "（显示：“mem”、"+fmt.Sprintf(use, i)+"）")
			}
		case 1:
			lines = append(lines, fmt.Sprintf("（显示：“op%d”、%s）", i, call))
		case 2:
			lines = append(lines, "输出"+call)
		}
	}
	if handler {
		lines = append(lines, "", "拦截异常：", "\t（显示：“caught”）", "\t输出“handled”")
	}
	sc.Program = strings.Join(lines, "\n") + "\n"
	if enum != nil {
		if enum.fault != "" {
			d.Force[enum.fault] = enum.at
			sc.Faults = []string{fmt.Sprintf("%s forced at opportunity %d", enum.fault, enum.at)}
		}
	} else {
		enableFaults(t, d, &sc.Faults, []string{zsim.FOpenEACCES, zsim.FOpenEMFILE, zsim.FOpenVanished, zsim.FReadEIO, zsim.FReadShort, zsim.FWriteENOSPC, zsim.FWriteEROFS, zsim.FWriteTorn, zsim.FReadDirEIO, zsim.FSyncEIO})
	}
	for _, op := range ops {
		if op.kind == "写入文件" {
			written[op.path] = append(written[op.path], op.text)
		}
	}
	res := runScript(w, newInterp(), sc.Program, nil)
	sc.Outcome = res.String()
	out.Keys = []string{fmt.Sprintf("builtins|%v|h=%v|n=%d|%s", sc.Faults, handler, n, opsKey(ops))}
	if res.Panic != "" {
		return fail("builtin:panic:"+c10PanicSite(w), "Go panic escaped Execute: "+res.Panic)
	}
	if res.NilElem {
		return fail("builtin:nil-element", "Execute returned a nil element and no error (输出 of a built-in's result handed the host a nil)")
	}
	faulted := false
	for k, v := range w.Faults {
		if v > 0 && k != "disk."+zsim.FReadShort {
			faulted = true
		}
	}
	// ---- reference model (fault-free expectation), also used relaxed under faults
	var expDisp []string
	expResult := "*value.Null:空"
	raised := ""
	for i, op := range ops {
		var val string
		var err string
		switch op.kind {
		case "读取文件":
			if s, ok := model[op.path]; ok {
				val = s
			} else if d.IsDir(op.path) {
				err = "is-dir"
			} else {
				err = "enoent"
			}
		case "写入文件":
			parentOK := d.IsDir(parentOf(op.path))
			if d.IsDir(op.path) || !parentOK {
				err = "cannot-write"
			} else {
				model[op.path] = op.text
				val = "\x00any" // the documented result of 写入文件 is unspecified: any non-nil element
			}
		case "读取目录":
			if d.IsDir(op.path) {
				val = "\x00any"
			} else {
				err = "not-dir"
			}
		}
		if err != "" {
			raised = err
			break
		}
		switch op.direct {
		case 0, 1:
			if val == "\x00any" {
				expDisp = append(expDisp, fmt.Sprintf("op%d \x00", i))
			} else {
				expDisp = append(expDisp, splitDisp(fmt.Sprintf("op%d %s", i, val))...)
			}
		case 2:
			if val != "\x00any" {
				expResult = "*value.String:" + val
			} else {
				expResult = "\x00any"
			}
		}
	}
	if raised != "" {
		if handler {
			expDisp = append(expDisp, "caught")
			expResult = "*value.String:handled"
		} else {
			expResult = "\x00error"
		}
	}
	sc.Expected = fmt.Sprintf("display=%q result=%q", expDisp, expResult)
	if !faulted && hasMem {
		// members applied to what was read: their exact text is outside this narrow claim; the
		// outcome must still be a value or a Zn error (checked above: no panic, no nil element)
		return out
	}
	if !faulted {
		if !dispMatch(res.Display, expDisp) {
			return fail("builtin:wrong-display", fmt.Sprintf("fault-free run: displayed %q, reference model expects %q", res.Display, expDisp))
		}
		switch expResult {
		case "\x00error":
			if res.Err == "" {
				return fail("builtin:error-lost", "a failing built-in without handler must end the program with an error; got "+res.String())
			}
		case "\x00any":
			if res.Err != "" {
				return fail("builtin:unexpected-error", "fault-free run ended with error: "+firstLines(res.Err, 5))
			}
		default:
			if res.Err != "" || res.Result != expResult {
				return fail("builtin:wrong-result", fmt.Sprintf("fault-free run: result %q err %q, expected %q", res.Result, firstLines(res.Err, 4), expResult))
			}
		}
		// final disk content equals the model
		for p, s := range model {
			if got, ok := d.Peek(p); !ok || string(got) != s {
				return fail("builtin:disk-differs", fmt.Sprintf("after a fault-free run %s holds %q, model says %q", p, string(got), s))
			}
		}
		return out
	}
	// ---- under faults: an operation may fail, never return wrong data
	for _, l := range res.Display {
		if !strings.HasPrefix(l, "op") {
			continue
		}
		var idx int
		var rest string
		if n, _ := fmt.Sscanf(l, "op%d", &idx); n == 1 && idx < len(ops) && ops[idx].kind == "读取文件" {
			rest = strings.TrimPrefix(l, fmt.Sprintf("op%d ", idx))
			okv := false
			for _, cand := range written[ops[idx].path] {
				first := strings.Split(cand, "\n")[0]
				if strings.HasPrefix(first, rest) || strings.HasPrefix(cand, rest) {
					okv = true
				}
			}
			if !okv {
				return fail("builtin:garbage-read", fmt.Sprintf("读取文件 of %s displayed %q which is no prefix of anything ever written there (%q)", ops[idx].path, rest, written[ops[idx].path]))
			}
		}
	}
	if handler && res.Err != "" && !strings.Contains(res.Err, "caught") {
		// with a 拦截异常 handler every failure of these built-ins must reach it
		return fail("builtin:exception-bypassed-handler", "a failing I/O built-in was not delivered to 拦截异常: "+firstLines(res.Err, 6))
	}
	return out
}

func parentOf(p string) string {
	i := strings.LastIndex(p, "/")
	if i <= 0 {
		return "/"
	}
	return p[:i]
}

func splitDisp(s string) []string { return strings.Split(s, "\n") }

func dispMatch(got, exp []string) bool {
	if len(got) != len(exp) {
		return false
	}
	for i := range got {
		if strings.HasSuffix(exp[i], "\x00") {
			if !strings.HasPrefix(got[i], strings.TrimSuffix(exp[i], "\x00")) {
				return false
			}
			continue
		}
		if got[i] != exp[i] {
			return false
		}
	}
	return true
}

func opsKey(ops []c10Op) string {
	var s []string
	for _, o := range ops {
		s = append(s, fmt.Sprintf("%s@%s/%d", o.kind, o.path, o.direct))
	}
	return strings.Join(s, ",")
}

// c10PanicSite extracts the innermost Zn frame of a logged panic for the signature.
func c10PanicSite(w *zsim.World) string {
	for _, l := range w.Trace() {
		if i := strings.Index(l, "PANIC"); i >= 0 {
			if strings.Contains(l, zsim.BudgetPanic) || strings.Contains(l, zsim.OpenPanic) {
				return "unbounded-recursion-or-loop" // where the budget ran out says nothing
			}
			for _, ln := range strings.Split(l, "\n") {
				ln = strings.TrimSpace(ln)
				if strings.HasPrefix(ln, "github.com/DemoHn/Zn/") && !strings.Contains(ln, "znverif") {
					if j := strings.LastIndex(ln, "("); j > 0 {
						ln = ln[:j]
					}
					return strings.TrimPrefix(ln, "github.com/DemoHn/Zn/")
				}
			}
		}
	}
	return "unknown"
}

func c10Loading(t *zsim.Tape, w *zsim.World, d *zsim.Disk, sc *c10Scenario, out *hlib.Outcome, fail func(string, string) *hlib.Outcome) *hlib.Outcome {
	sc.Files = map[string]string{
		"/proj/main.zn": "导入“工具”\n导入“子-深”\n\n（显示：（帮手））\n（显示：（深处））\n输出“done”\n",
		"/proj/工具.zn":   "如何帮手？\n\t输出“帮”\n",
		"/proj/子/深.zn":  "如何深处？\n\t输出“深”\n",
	}
	foreign := false
	switch t.Draw(8) {
	case 5, 6, 7:
		// a file saved in another encoding with its own byte-order mark (UTF-16 LE/BE, UTF-32 LE):
		// the module, or the main file itself
		victim := []string{"/proj/工具.zn", "/proj/main.zn", "/proj/子/深.zn"}[t.Draw(3)]
		text := sc.Files[victim]
		var enc []byte
		switch t.Draw(3) {
		case 0:
			enc = []byte{0xFF, 0xFE}
			for _, u := range utf16.Encode([]rune(text)) {
				enc = append(enc, byte(u), byte(u>>8))
			}
		case 1:
			enc = []byte{0xFE, 0xFF}
			for _, u := range utf16.Encode([]rune(text)) {
				enc = append(enc, byte(u>>8), byte(u))
			}
		case 2:
			enc = []byte{0xFF, 0xFE, 0x00, 0x00}
			for _, r := range text {
				enc = append(enc, byte(r), byte(r>>8), byte(r>>16), 0)
			}
		}
		sc.Files[victim] = string(enc)
		foreign = true
	case 1:
		delete(sc.Files, "/proj/工具.zn")
	case 2:
		delete(sc.Files, "/proj/子/深.zn")
		sc.Files["/proj/子"] = "a regular file where a directory is expected"
	case 3:
		delete(sc.Files, "/proj/工具.zn")
		d.MkdirAll("/proj/工具.zn") // a directory in place of the module file
		sc.Files["/proj/工具.zn/"] = "<dir>"
	case 4:
		sc.Files["/proj/工具.zn"] = "如何帮手？\n\t输出“帮”\n\xff\xfe"
	}
	// a further import whose NAME is degenerate (empty, only separators, a trailing separator, the
	// file name instead of the module name, path-like): any outcome but a crash is acceptable
	degenerate := false
	if x := t.Draw(14); x > 0 {
		name := []string{"", "-", "--", "工具-", "-工具", "工具.zn", "子-", "子-深-", "子--深", "../工具", "/proj/工具", ".", "子-深.zn"}[x-1]
		line := "导入“" + name + "”\n"
		main := sc.Files["/proj/main.zn"]
		switch t.Draw(3) {
		case 0:
			main = line + main
		case 1:
			main = strings.Replace(main, "导入“子-深”\n", "导入“子-深”\n"+line, 1)
		case 2:
			main = strings.Replace(main, "导入“子-深”\n", line+"导入“子-深”\n", 1)
		}
		sc.Files["/proj/main.zn"] = main
		degenerate = true
	}
	for p, s := range sc.Files {
		if s != "<dir>" {
			d.Put(p, []byte(s))
		}
	}
	enableFaults(t, d, &sc.Faults, []string{zsim.FStatEACCES, zsim.FOpenEACCES, zsim.FOpenEMFILE, zsim.FOpenVanished, zsim.FReadEIO, zsim.FReadShort})
	res := runFile(w, newInterp(), "/proj/main.zn", nil)
	sc.Outcome = res.String()
	out.Keys = []string{fmt.Sprintf("loading|%v|%d|%s", sc.Faults, len(sc.Files), hlib.Hash(sc.Files["/proj/main.zn"])[:6])}
	if res.Panic != "" {
		return fail("loading:panic:"+c10PanicSite(w), "Go panic escaped LoadFile(...).Execute: "+res.Panic)
	}
	if res.NilElem {
		return fail("loading:nil-element", "Execute returned nil element and nil error")
	}
	faulted := false
	for k, v := range w.Faults {
		if v > 0 && k != "disk."+zsim.FReadShort {
			faulted = true
		}
	}
	pristine := !degenerate && !foreign && len(sc.Files) == 3 && sc.Files["/proj/工具.zn"] == "如何帮手？\n\t输出“帮”\n" && sc.Files["/proj/子/深.zn"] != ""
	if !faulted && pristine {
		if res.Err != "" || strings.Join(res.Display, ",") != "帮,深" || res.Result != "*value.String:done" {
			return fail("loading:wrong-outcome", "fault-free load of a correct project gave "+res.String())
		}
	}
	if degenerate && res.Err == "" {
		return out // how a degenerate name resolves is not ruled on; it did not crash
	}
	if (faulted || !pristine) && res.Err == "" && strings.Join(res.Display, ",") != "帮,深" {
		return fail("loading:fault-ignored", "a module could not be loaded, yet the program ran on without error: "+res.String())
	}
	return out
}

// c10WireRequest renders a request as the bytes a client might send and parses them with
// http.ReadRequest. nil = keep the directly constructed request (also when the bytes are so
// malformed that net/http refuses them before any handler sees the request).
func c10WireRequest(t *zsim.Tape, body string, sc *c10Scenario) (*http.Request, bool) {
	if t.Draw(3) != 1 {
		return nil, false
	}
	cut := false
	var sb strings.Builder
	method := []string{"POST", "POST", "PUT", "GET", "DELETE", "OPTIONS", "PATCH"}[t.Draw(7)]
	query := []string{"?x=1", "", "?", "?a", "?=v", "?a=1&a=2&a=", "?a&b&c=", "?%zz=1", "?k=%E4%B8%AD&%E6%96%87=v", "?a=1;b=2", "?" + strings.Repeat("k=v&", 300)}[t.Draw(11)]
	proto := []string{"HTTP/1.1", "HTTP/1.1", "HTTP/1.0"}[t.Draw(3)]
	framing := t.Draw(8)
	if framing > 2 {
		proto = "HTTP/1.1" // net/http ignores Transfer-Encoding on HTTP/1.0 requests (no body at all)
	}
	fmt.Fprintf(&sb, "%s /run%s %s\r\n", method, query, proto)
	if t.Draw(8) != 7 {
		sb.WriteString("Host: sim.local\r\n")
	}
	// header fields: repeated names, empty values, names differing in letter case only
	for i, n := 0, t.Draw(4); i < n; i++ {
		sb.WriteString([]string{"X-A: 1\r\n", "X-A: 2\r\n", "x-a: 3\r\n", "X-Empty:\r\n", "X-Empty: \r\n", "Cookie: a=b\r\n", "Cookie: c=d\r\n", "Accept: */*\r\n"}[t.Draw(8)])
	}
	if x := t.Draw(6); x > 0 {
		sb.WriteString("Content-Type: " + []string{"application/json", "application/json; charset=utf-8", "json", "", "text/plain"}[x-1] + "\r\n")
	}
	switch framing {
	case 0, 1: // announced length = what is sent
		fmt.Fprintf(&sb, "Content-Length: %d\r\n\r\n%s", len(body), body)
	case 2: // shorter than announced: the connection ends early
		fmt.Fprintf(&sb, "Content-Length: %d\r\n\r\n%s", len(body)+7, body)
		cut = true
	default: // chunked, with chunk sizes, extensions and trailers of the client's choosing
		announce := []string{"", "", "X-Checksum", "X-Checksum, X-Other", "x-checksum"}[t.Draw(5)]
		sb.WriteString("Transfer-Encoding: chunked\r\n")
		if announce != "" {
			sb.WriteString("Trailer: " + announce + "\r\n")
		}
		sb.WriteString("\r\n")
		rest := body
		for len(rest) > 0 {
			n := 1 + t.Draw(len(rest))
			if t.Draw(3) == 0 {
				n = len(rest)
			}
			ext := []string{"", "", ";ext=1"}[t.Draw(3)]
			fmt.Fprintf(&sb, "%x%s\r\n%s\r\n", n, ext, rest[:n])
			rest = rest[n:]
		}
		switch framing {
		case 7: // the connection ends inside the chunked body
			cut = true
		default:
			sb.WriteString("0\r\n")
			switch t.Draw(4) { // which trailer fields actually follow
			case 1:
				sb.WriteString("X-Checksum: abc\r\n")
			case 2:
				sb.WriteString("X-Checksum: abc\r\nX-Other: 1\r\nX-Unannounced: 2\r\n")
			case 3:
				sb.WriteString("X-Other:\r\n")
			}
			sb.WriteString("\r\n")
		}
	}
	raw := sb.String()
	req, err := http.ReadRequest(bufio.NewReader(strings.NewReader(raw)))
	if err != nil {
		return nil, false
	}
	req.RemoteAddr = "192.0.2.1:1234"
	head := raw
	if len(head) > 600 {
		head = head[:600] + "…"
	}
	sc.Wire = head
	return req, cut
}

type failingBody struct {
	data []byte
	off  int
	fail int // fail after this many bytes (-1 = never)
	err  error
}

func (b *failingBody) Read(p []byte) (int, error) {
	if b.fail >= 0 && b.off >= b.fail {
		return 0, b.err
	}
	if b.off >= len(b.data) {
		return 0, io.EOF
	}
	n := copy(p, b.data[b.off:])
	if b.fail >= 0 && b.off+n > b.fail {
		n = b.fail - b.off
	}
	b.off += n
	return n, nil
}
func (b *failingBody) Close() error { return nil }

func c10Body(t *zsim.Tape, w *zsim.World, d *zsim.Disk, sc *c10Scenario, out *hlib.Outcome, fail func(string, string) *hlib.Outcome) *hlib.Outcome {
	bodies := []string{
		`{"SourceCode":"（显示：“hi”）\n输出1 + 1","VarInput":""}`,
		`{"SourceCode":"输入甲\n输出甲","VarInput":"甲 = 5"}`,
		`{"SourceCode":"输出1","VarInput":"甲 = 未定义名"}`,
		// input-variable texts arrive with the request: names that are not defined, 其 / 此 outside
		// any object, calls of unknown functions, several lines
		`{"SourceCode":"输入甲\n输出甲","VarInput":"甲 = 乙"}`,
		`{"SourceCode":"输入甲\n输出甲","VarInput":"甲 = 乙 + 1"}`,
		`{"SourceCode":"输入甲\n输出甲","VarInput":"甲 = 其 乙"}`,
		`{"SourceCode":"输入甲\n输出甲","VarInput":"甲 = 此"}`,
		`{"SourceCode":"输入甲\n输出甲","VarInput":"甲 = （无此函数：1）"}`,
		`{"SourceCode":"输入甲、乙\n输出甲 + 乙","VarInput":"甲 = 1\n乙 = 甲"}`,
		`{"SourceCode":"输入甲\n输出甲","VarInput":"甲 = 【乙，“k” = 丙】"}`,
		`{"SourceCode":"输入甲\n输出甲","VarInput":"甲 成为 无此类：1"}`,
		`{"SourceCode":"输入甲\n输出甲","VarInput":"甲 = 1 / 0"}`,
		`{"SourceCode":"输入甲\n输出甲","VarInput":"甲 = （新建异常：“x”）"}`,
		`{"SourceCode":"输入甲\n输出甲","VarInput":"甲 成为 异常：“x”"}`,
		`{"SourceCode":"输入甲\n输出甲","VarInput":"甲 = 以数值（自增：1）"}`,
		`{"SourceCode":"输入甲\n输出甲","VarInput":"甲 = 1\n甲 = 2"}`,
		`{"SourceCode":"输入甲\n输出甲","VarInput":"甲 = 以【1】（寻找）"}`,
		`{"SourceCode":"输入甲\n输出甲","VarInput":"甲 = 【1，2】 # 9"}`,
		`{"SourceCode":"输入甲\n输出甲","VarInput":"甲 = 空 之 长度"}`,
		`{"SourceCode":"输入甲\n输出甲","VarInput":"如何甲？\n\t输出1"}`,
		`{"SourceCode":"输入甲\n输出甲","VarInput":"导入《@JSON》\n甲 = 1"}`,
		`{"SourceCode":"输入甲\n输出甲","VarInput":"甲 = （解析JSON：“1”）"}`,
		`{"SourceCode":"输入甲\n输出甲","VarInput":"抛出异常：“x”！"}`,
		`{"SourceCode":"输入甲\n输出甲","VarInput":"甲"}`,
		`{"SourceCode":"输入甲\n输出甲","VarInput":"= 1"}`,
		`{"SourceCode":"输入甲、乙\n输出甲 + 乙","VarInput":"甲 = 1；乙 = 2"}`,
		`{"SourceCode":"输入甲、乙\n输出甲 + 乙","VarInput":"甲 = 1; 乙 = 2"}`,
		`{"SourceCode":"输入甲\n输出甲","VarInput":"；甲 = 1"}`,
		`{"SourceCode":"输入甲、乙\n输出甲 + 乙","VarInput":"甲 = 1；；乙 = 2；"}`,
		`{"SourceCode":"输入甲\n输出甲","VarInput":"；"}`,
		`{"SourceCode":"输入甲\n输出甲","VarInput":"甲 = 1，乙 = 2"}`,
		`{"SourceCode":"输入甲\n输出甲","VarInput":"\n\n甲 = 1\n\n"}`,
		`{"SourceCode":"输入甲\n输出甲","VarInput":"注：说明\n甲 = 1"}`,
		`{"a":1,"b":[1,2]}`,
		`[1,2,3]`,
		`null`, ` null `, `true`, `123`, `"text"`, `{}`, `{"VarInput":null,"SourceCode":null}`, `{"SourceCode":5}`, `[null]`,
		`not json`,
		``,
		"\n", " \r\n ", "\t", " ", "\n\n{}", // blank texts: what `echo | curl --data-binary @-` sends
		`{"SourceCode":"抛出异常：“x”！","VarInput":""}`,
	}
	body := bodies[t.Draw(len(bodies))]
	fb := &failingBody{data: []byte(body), fail: -1, err: errors.New("simulated: connection reset by peer")}
	if t.Draw(3) == 2 {
		fb.fail = t.Draw(len(body) + 1)
		sc.BodyFail = fmt.Sprintf("client abort after %d of %d body bytes", fb.fail, len(body))
		w.Fault("net.body-abort")
	}
	sc.Body = body
	req := httptest.NewRequest("POST", "http://sim.local/run?x=1", nil)
	req.Body = fb
	// the announced length is what the client's header says, not what it sends
	switch t.Draw(6) {
	case 0:
		req.ContentLength = int64(len(body))
	case 1:
		req.ContentLength = -1 // unknown (chunked)
	case 2:
		req.ContentLength = 1 << 62
		sc.BodyFail += " announced Content-Length 2^62"
	case 3:
		req.ContentLength = 1<<63 - 1
		sc.BodyFail += " announced Content-Length 2^63-1"
	case 4:
		req.ContentLength = int64(len(body)) + 1000
	case 5:
		req.ContentLength = 0
	}
	// what the client says the body is: the header is text chosen by the client
	if x := t.Draw(16); x > 0 {
		req.Header.Set("Content-Type", []string{"application/json", "application/json", "application/json", "application/json; charset=utf-8",
			"Application/JSON", "json", "text", "json; charset=utf-8", "application/", "/", "a/b/c", ";", "text/plain; charset", "application/vnd.api+json",
			strings.Repeat("x", 5000) + "/json"}[x-1])
	}
	// one request in three arrives as BYTES and is parsed by net/http's own request reader, as in
	// the prefork worker (http.ReadRequest) and under http.Serve: framing, trailers, repeated and
	// empty header fields, odd query strings and methods are the client's choice
	wireCut := false
	if wire, cut := c10WireRequest(t, body, sc); wire != nil {
		req, wireCut = wire, cut
		fb.fail = -1 // the directly constructed body (and its abort point) is not used
		sc.BodyFail = ""
		if cut {
			sc.BodyFail = "the connection ends before the announced end of the body"
			w.Fault("net.body-cut-on-the-wire")
		}
	}
	rec := httptest.NewRecorder()
	var h http.Handler
	which := "playground"
	if t.Draw(2) == 1 {
		which = "http"
		d.Put("/srv/entry.zn", []byte("输入当前请求\n输出当前请求 之 内容\n"))
		h = server.NewZnHttpHandler(newInterp(), "/srv/entry.zn")
	} else {
		h = server.NewZnPlaygroundHandler(newInterp())
	}
	sc.Kind = "request-body:" + which
	res := execute(w, func() (rElement, error) { h.ServeHTTP(rec, req); return strResult("served"), nil })
	sc.Outcome = fmt.Sprintf("status=%d body=%q display=%q panic=%q", rec.Code, rec.Body.String(), res.Display, res.Panic)
	out.Keys = []string{fmt.Sprintf("body|%s|%d|%v|%s", which, t.Pos()%3, fb.fail >= 0, hlib.Hash(body))}
	if res.Panic != "" {
		return fail("handler:panic:"+c10PanicSite(w), "Go panic escaped "+which+" handler: "+res.Panic)
	}
	if wireCut && rec.Code == 200 {
		return fail("handler:truncated-body-served", "the connection ended before the announced end of the request body but the handler answered 200: "+sc.Outcome)
	}
	if fb.fail >= 0 && fb.fail < len(body) && rec.Code == 200 {
		return fail("handler:truncated-body-served", "the request body reader failed mid-body but the handler answered 200: "+sc.Outcome)
	}
	return out
}
