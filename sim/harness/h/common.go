package main

import (
	"fmt"
	"runtime/debug"
	"strings"

	"github.com/DemoHn/Zn/pkg/common"
	"github.com/DemoHn/Zn/pkg/exec"
	r "github.com/DemoHn/Zn/pkg/runtime"
	libFile "github.com/DemoHn/Zn/stdlib/file"
	libJson "github.com/DemoHn/Zn/stdlib/json"
	"github.com/DemoHn/Zn/pkg/value"
	"github.com/DemoHn/Zn/znverif/zsim"
)

// ExecResult is everything observable about one execution.
type ExecResult struct {
	Result  string   `json:"result"`
	Display []string `json:"display"`
	Err     string   `json:"err,omitempty"`
	Panic   string   `json:"panic,omitempty"`
	NilElem bool     `json:"nil_elem,omitempty"`
}

func (e ExecResult) String() string {
	return fmt.Sprintf("result=%q err=%q panic=%q nil=%v display=%q", e.Result, e.Err, e.Panic, e.NilElem, strings.Join(e.Display, "\n"))
}

// httpLib registers the real request / response classes of pkg/common the way stdlib/http does
// (that package itself does not build on Linux at the pinned commit).
var httpLibOnce *r.Library

func httpLib() *r.Library {
	if httpLibOnce == nil {
		httpLibOnce = r.NewLibrary("@HTTP")
		httpLibOnce.RegisterClass("HTTP请求", common.CLASS_HttpRequest)
		httpLibOnce.RegisterClass("HTTP响应", common.CLASS_HttpResponse)
	}
	return httpLibOnce
}

func stdLibs(extra ...*r.Library) []*r.Library {
	return append([]*r.Library{libJson.Export(), libFile.Export(), httpLib()}, extra...)
}

func newInterp(extra ...*r.Library) *exec.Interpreter {
	return exec.NewInterpreter("sim").SetExternalLibs(stdLibs(extra...))
}

// execute runs fn (which calls Execute) inside world w, capturing display, result, error
// text and a Go panic if one escapes.
func execute(w *zsim.World, fn func() (r.Element, error)) (res ExecResult) {
	mark := w.Out.Len()
	defer func() {
		if p := recover(); p != nil {
			res.Panic = fmt.Sprintf("%v", p)
			st := string(debug.Stack())
			w.Logf("PANIC %v\n%s", p, firstLines(st, 40))
		}
		out := w.Out.String()[mark:]
		if out != "" {
			res.Display = strings.Split(strings.TrimSuffix(out, "\n"), "\n")
		}
	}()
	el, err := fn()
	if err != nil {
		res.Err = exec.DisplayError(err)
		return
	}
	if el == nil {
		res.NilElem = true
		return
	}
	res.Result = fmt.Sprintf("%T:%s", el, el.String())
	return
}

func firstLines(s string, n int) string {
	ls := strings.Split(s, "\n")
	if len(ls) > n {
		ls = ls[:n]
	}
	return strings.Join(ls, "\n")
}

func runScript(w *zsim.World, in *exec.Interpreter, src string, inputs r.ElementMap) ExecResult {
	if inputs == nil {
		inputs = r.ElementMap{}
	}
	return execute(w, func() (r.Element, error) { return in.LoadScript(sharedRunes(src)).Execute(inputs) })
}

func runFile(w *zsim.World, in *exec.Interpreter, path string, inputs r.ElementMap) ExecResult {
	if inputs == nil {
		inputs = r.ElementMap{}
	}
	return execute(w, func() (r.Element, error) { return in.LoadFile(path).Execute(inputs) })
}

// sharedRunes: an embedding application holds a program text once and executes it many times;
// every execution of the same text in this process is handed the SAME rune slice.
var runeCache = map[string][]rune{}

func sharedRunes(src string) []rune {
	rs, ok := runeCache[src]
	if !ok {
		rs = []rune(src)
		runeCache[src] = rs
	}
	return rs
}

// pick helpers over the tape
func pick(t *zsim.Tape, xs []string) string { return xs[t.Draw(len(xs))] }

type rElement = r.Element

func strResult(s string) r.Element { return value.NewString(s) }
