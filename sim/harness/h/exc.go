package main

// exc harness — C09 (exceptions reach the nearest matching handler and unwind cleanly) and
// C18 (runtime errors point at the line and call chain where they arose).
//
// Generated programs (1-3 modules on the simulated disk) carry probes `（探针：n）`; the
// simulator decides which dynamic probe invocation fails and how (fault injection through
// the library seam), so one program text is explored under many raise points. A reference
// interpreter over the generator's own AST replays the same fault plan and predicts the
// display trace, the result or uncaught message, and the active call chain at the fault.

import (
	"errors"
	"fmt"
	"strings"

	zerr "github.com/DemoHn/Zn/pkg/error"
	r "github.com/DemoHn/Zn/pkg/runtime"
	"github.com/DemoHn/Zn/pkg/value"
	"github.com/DemoHn/Zn/znverif/hlib"
	"github.com/DemoHn/Zn/znverif/zsim"
)

func init() {
	registry["C09"] = func(t *zsim.Tape, cfg *hlib.Config) *hlib.Outcome { return runExc(t, cfg, "C09") }
	registry["C18"] = func(t *zsim.Tape, cfg *hlib.Config) *hlib.Outcome { return runExc(t, cfg, "C18") }
}

// ------------------------------------------------------------------ AST of generated programs

type xStmt struct {
	Kind   string   // probe disp let show callf callm new showthis setthis throw div0 conv if while iter ret
	Text   string   // disp text / throw message / ret literal
	Var    string   // let/show/call result local, new object local
	Num    int      // let value / probe id / new arg
	Fn     string   // callf target
	Obj    string   // callm receiver local
	Class  string   // throw / new class
	Cond   bool     // if condition (constant)
	Then   []*xStmt // if / loop body
	Else   []*xStmt
	// if: the header condition may itself raise; an optional 再如 branch whose condition is
	// true, false or raises ("" = no 再如)
	CondRaise bool
	ElifKind  string
	Elif      []*xStmt
	RetVar string // ret: local to return ("" = literal Text)
	Arg    int      // callf/callm argument (when the callee has a parameter)
	HasArg bool
	Shows  []string // showall: names displayed
	Multi  bool     // rendered as an expression statement that spans two physical lines
	ArgBad bool     // the call's argument expression itself raises (1 / 0): the callee never runs
	ChainBad bool   // callm: the call is the first link of a chain 以O（法）、（无此法） whose second, built-in link fails
	Arity  int      // != 0: the call passes this many arguments more (+) or fewer (-) than the callee declares: the call fails in the CALLER
	Alias  string   // the function is first bound to this local name and called through it (functions are values)
	Line   int    // physical line (1-based) assigned by the renderer
}

type xCatch struct {
	Class string
	Body  []*xStmt
}

type xBody struct {
	Kind    string // program func method ctor
	Module  string
	Name    string
	Stmts   []*xStmt
	Catches []*xCatch
	Class   string // for method/ctor
	Param   string // "" = no parameter
	Recur   bool   // the function calls itself with Param-1 while Param > 0 (bounded recursion)
}

type xClass struct {
	Name    string
	Module  string
	Ctor    *xBody
	Methods []*xBody
	IsExc   bool // exception class (has 内容)
	NoContent bool // … except this one: it carries its text in a property 码 and has no 内容 at all
}

type xModule struct {
	Name    string // "主" for main, else import name
	Imports []string
	Funcs   []*xBody
	Classes []*xClass
	Main    *xBody // only for the main module
	Source  string
	CRLF    bool
	MixedEOL bool
	// Private: importers list this module's functions (and exception class) by name; its ordinary
	// class is named 箱 like the class of every other private module and stays inside the module
	Private bool
	// Bare: a file without a single 导入, whose top-level statements come FIRST (line 1 is an
	// executable statement) and whose declarations follow; no probes, no file operations
	Bare bool
}

type xProgram struct {
	Mods []*xModule // Mods[0] is main
}

type xPlan struct {
	N    int    // the N-th dynamic probe invocation fails (1-based); 0 = none
	Kind string // signal goerror runtime custom
}

// ------------------------------------------------------------------ probe library (the fault seam)

type probeState struct {
	plan  xPlan
	count int
	fired bool
}

var probeExcClass = value.NewClassModel("探针异常").DefineProperty("内容", value.NewString(""))

// probeBoxClass stands for a class an embedding application exports through a library: its
// default property values are package-level objects shared by every execution.
var probeBoxClass = value.NewClassModel("探针箱").
	DefineProperty("文", value.NewString("1.5*^3")).
	DefineProperty("数", value.NewNumber(7)).
	DefineProperty("表", value.NewArray([]r.Element{value.NewNumber(1), value.NewString("2*10^4")})).
	DefineProperty("典", value.NewHashMap([]value.KVPair{{Key: "k", Value: value.NewString("3*^2")}, {Key: "n", Value: value.NewNumber(5)}}))

func probeLib() *r.Library {
	lib := r.NewLibrary("@探针")
	lib.RegisterFunction("探针", value.NewFunction(func(recv r.Element, params []r.Element) (r.Element, error) {
		w := zsim.W
		if w == nil {
			return value.NewNumber(0), nil
		}
		ps, _ := w.Ext["probe"].(*probeState)
		if ps == nil {
			return value.NewNumber(0), nil
		}
		ps.count++
		if ps.plan.N > 0 && ps.count == ps.plan.N {
			ps.fired = true
			w.Fault("probe." + ps.plan.Kind)
			w.Logf("FAULT probe #%d fails as %s", ps.count, ps.plan.Kind)
			switch ps.plan.Kind {
			case "signal":
				return nil, value.ThrowException("探针故障")
			case "goerror":
				return nil, errors.New("探针故障")
			case "runtime":
				return nil, zerr.IndexOutOfRange()
			case "custom":
				obj := value.NewObject(probeExcClass, r.ElementMap{"内容": value.NewString("探针故障")})
				return nil, zerr.NewExceptionSignal(obj)
			}
		}
		return value.NewNumber(float64(ps.count)), nil
	}))
	lib.RegisterClass("探针异常", probeExcClass)
	lib.RegisterClass("探针箱", probeBoxClass)
	return lib
}

// ------------------------------------------------------------------ generator

type xGen struct {
	private  map[string]bool // modules imported by name lists
	usedDeep bool
	t      *zsim.Tape
	probes int
	locals int
	prog   *xProgram
	// callable functions in generation order: a body may only call functions created before it
	funcs   []*xBody
	classes []*xClass
	depthOf map[string]int
}

func (g *xGen) local() string { g.locals++; return fmt.Sprintf("量%d", g.locals) }

var xModNames = []string{"主", "模一", "模二"}

func genExcProgram(t *zsim.Tape) *xProgram {
	g := &xGen{t: t, depthOf: map[string]int{}, private: map[string]bool{}}
	p := &xProgram{}
	g.prog = p
	nm := 1 + t.Draw(3)
	// exception classes of different modules are sometimes named alike up to letter case (two
	// libraries naming an error type after the same acronym): handlers match the exact name
	latin := t.Draw(3) == 2
	// modules are generated leaf-first so that calls only go to already generated code
	for i := nm - 1; i >= 0; i-- {
		m := &xModule{Name: xModNames[i]}
		m.Private = i > 0 && t.Draw(2) == 1
		// imports: later modules (already generated)
		for j := i + 1; j < nm; j++ {
			if i == 0 || t.Draw(2) == 1 {
				m.Imports = append(m.Imports, xModNames[j])
			}
		}
		visible := func() ([]*xBody, []*xClass) {
			var fs []*xBody
			var cs []*xClass
			ok := map[string]bool{m.Name: true}
			for _, im := range m.Imports {
				ok[im] = true
			}
			for _, f := range g.funcs {
				if ok[f.Module] {
					fs = append(fs, f)
				}
			}
			for _, c := range g.classes {
				if ok[c.Module] && (c.Module == m.Name || c.IsExc || !g.private[c.Module]) {
					cs = append(cs, c)
				}
			}
			return fs, cs
		}
		if m.Private {
			g.private[m.Name] = true
		}
		// optionally a custom exception class and/or an ordinary class
		if t.Draw(3) == 0 || latin {
			c := &xClass{Name: fmt.Sprintf("错%d", i), Module: m.Name, IsExc: true}
			if latin {
				c.Name = []string{"HttpError", "HTTPError", "httpError"}[i]
			}
			c.NoContent = t.Draw(3) == 2
			m.Classes = append(m.Classes, c)
			g.classes = append(g.classes, c)
		}
		if t.Draw(2) == 0 || m.Private {
			c := &xClass{Name: fmt.Sprintf("箱%d", i), Module: m.Name}
			if m.Private {
				c.Name = "箱" // two modules may each have a class of this name for their own use
			}
			fs, cs := visible()
			c.Ctor = &xBody{Kind: "ctor", Module: m.Name, Name: "新建" + c.Name, Class: c.Name}
			c.Ctor.Stmts = g.stmts(c.Ctor, fs, cs, 1+t.Draw(2), 1, false)
			nmeth := 1 + t.Draw(2)
			for k := 0; k < nmeth; k++ {
				mb := &xBody{Kind: "method", Module: m.Name, Name: fmt.Sprintf("法%d", k+1), Class: c.Name}
				if t.Draw(2) == 1 {
					mb.Param = xPool[t.Draw(len(xPool))]
				}
				fs, cs = visible()
				mb.Stmts = g.stmts(mb, fs, cs, 1+t.Draw(4), 1, true)
				g.declFault(mb)
				g.catches(mb, fs, cs)
				c.Methods = append(c.Methods, mb)
			}
			m.Classes = append(m.Classes, c)
			g.classes = append(g.classes, c)
		}
		nf := t.Draw(3)
		if i > 0 && nf == 0 && (len(m.Classes) == 0 || m.Private) {
			nf = 1
		}
		for k := 0; k < nf; k++ {
			fb := &xBody{Kind: "func", Module: m.Name, Name: fmt.Sprintf("%s函%d", strings.TrimPrefix(m.Name, "模"), k+1)}
			if t.Draw(2) == 1 {
				fb.Param = xPool[t.Draw(len(xPool))]
			}
			if t.Draw(5) == 4 {
				fb.Param, fb.Recur = "层", true // never reassigned: 层 is not in the name pool
			}
			fs, cs := visible()
			fb.Stmts = g.stmts(fb, fs, cs, 1+t.Draw(4), 1, true)
			if fb.Recur {
				// the self-call sits at a drawn position of the top level (never inside a loop)
				pos := t.Draw(len(fb.Stmts))
				rs := &xStmt{Kind: "recurse", Fn: fb.Name, Var: g.local()}
				fb.Stmts = append(fb.Stmts[:pos], append([]*xStmt{rs}, fb.Stmts[pos:]...)...)
			}
			if m.Private && t.Draw(2) == 1 {
				// the functions of a private module use the module's own class 箱: create one, call a method
				for _, c := range m.Classes {
					if !c.IsExc && len(c.Methods) > 0 {
						mm := c.Methods[t.Draw(len(c.Methods))]
						call := &xStmt{Kind: "callm", Obj: "私物", Fn: mm.Name, Class: c.Name, Var: g.local()}
						if mm.Param != "" {
							call.HasArg, call.Arg = true, t.Draw(50)
						}
						pair := []*xStmt{{Kind: "new", Class: c.Name, Var: "私物", Num: t.Draw(9)}, call}
						pos := t.Draw(len(fb.Stmts) + 1)
						fb.Stmts = append(fb.Stmts[:pos], append(pair, fb.Stmts[pos:]...)...)
					}
				}
			}
			g.declFault(fb)
			g.catches(fb, fs, cs)
			m.Funcs = append(m.Funcs, fb)
			g.funcs = append(g.funcs, fb)
		}
		if i == 0 {
			m.Main = &xBody{Kind: "program", Module: m.Name, Name: "主程序"}
			fs, cs := visible()
			m.Main.Stmts = g.stmts(m.Main, fs, cs, 2+t.Draw(5), 1, true)
			// the main program uses every private module it imports: one call each, at drawn positions
			for _, f := range fs {
				if g.private[f.Module] && !f.Recur && t.Draw(2) == 1 {
					st := &xStmt{Kind: "callf", Fn: f.Name, Var: g.local()}
					if f.Param != "" {
						st.HasArg, st.Arg = true, t.Draw(50)
					}
					pos := t.Draw(len(m.Main.Stmts) + 1)
					m.Main.Stmts = append(m.Main.Stmts[:pos], append([]*xStmt{st}, m.Main.Stmts[pos:]...)...)
				}
			}
			g.declFault(m.Main)
			g.catches(m.Main, fs, cs)
		}
		m.CRLF = t.Draw(6) == 0
		m.MixedEOL = t.Draw(5) == 4
		p.Mods = append([]*xModule{m}, p.Mods...)
	}
	if nm == 1 && t.Draw(4) == 3 {
		makeBare(p.Mods[0])
	}
	return p
}

// makeBare turns a single-module program into one that needs no library: probes become plain
// displays, file operations become divisions by zero, handlers of the probe library's
// exception class become handlers of 异常 (one per body).
func makeBare(m *xModule) {
	m.Bare = true
	var walk func(ss []*xStmt)
	walk = func(ss []*xStmt) {
		for _, s := range ss {
			switch s.Kind {
			case "probe":
				s.Kind, s.Text, s.Multi = "disp", fmt.Sprintf("探%d", s.Num), false
			case "ioread", "ioopen":
				s.Kind = "div0"
			}
			walk(s.Then)
			walk(s.Else)
			walk(s.Elif)
		}
	}
	body := func(b *xBody) {
		if b == nil {
			return
		}
		walk(b.Stmts)
		seen := map[string]bool{}
		var cs []*xCatch
		for _, c := range b.Catches {
			if c.Class == "探针异常" {
				c.Class = "异常"
				for _, st := range c.Body {
					if st.Kind == "showexc" {
						st.Class = "异常"
					}
				}
			}
			if seen[c.Class] {
				continue
			}
			seen[c.Class] = true
			walk(c.Body)
			cs = append(cs, c)
		}
		b.Catches = cs
	}
	for _, c := range m.Classes {
		body(c.Ctor)
		for _, mb := range c.Methods {
			body(mb)
		}
	}
	for _, f := range m.Funcs {
		body(f)
	}
	body(m.Main)
	// with the statements first, a failing declaration among them would abort the declaration
	// pass before the functions below it exist (which a handler of the main body may call)
	var keep []*xStmt
	for _, s := range m.Main.Stmts {
		if s.Kind != "declbad" {
			keep = append(keep, s)
		}
	}
	m.Main.Stmts = keep
}

// declFault puts, into one body in twelve, a declaration that fails while it is being declared
// (declarations are evaluated before the other statements of their block).
func (g *xGen) declFault(b *xBody) {
	if g.t.Draw(12) != 11 {
		return
	}
	st := &xStmt{Kind: "declbad", Num: g.t.Draw(2)}
	pos := g.t.Draw(len(b.Stmts) + 1)
	b.Stmts = append(b.Stmts[:pos], append([]*xStmt{st}, b.Stmts[pos:]...)...)
}

func (g *xGen) catches(b *xBody, fs []*xBody, cs []*xClass) {
	n := g.t.Draw(3)
	if n == 2 {
		n = 1 + g.t.Draw(2)
	}
	used := map[string]bool{}
	for i := 0; i < n; i++ {
		cls := "异常"
		switch g.t.Draw(4) {
		case 1:
			cls = "探针异常"
		case 2:
			if ecs := excClassesOf(cs); len(ecs) > 0 {
				cls = ecs[g.t.Draw(len(ecs))]
			}
		}
		if used[cls] {
			continue
		}
		used[cls] = true
		c := &xCatch{Class: cls}
		hb := &xBody{Kind: "handler", Module: b.Module, Name: b.Name + "·拦截", Class: b.Class, Param: b.Param}
		c.Body = append(c.Body, &xStmt{Kind: "showexc", Class: cls})
		c.Body = append(c.Body, g.stmts(hb, fs, cs, g.t.Draw(3), 2, false)...)
		if g.t.Draw(3) != 0 && b.Kind != "ctor" {
			c.Body = append(c.Body, &xStmt{Kind: "ret", Text: fmt.Sprintf("%s救%d", b.Name, i)})
		}
		b.Catches = append(b.Catches, c)
	}
}

func excClassesOf(cs []*xClass) []string {
	var out []string
	for _, c := range cs {
		if c.IsExc {
			out = append(out, c.Name)
		}
	}
	return out
}

var xPool = []string{"甲", "乙", "丙", "丁"}

// nameScope tracks which names the generated code may refer to at a point of a body.
type nameScope struct {
	names  []string
	parent *nameScope
	objs   []struct{ v, cls string }
	loop   bool // this block is (inside) a loop body of the same function body
}

func (ns *nameScope) inLoop() bool {
	for s := ns; s != nil; s = s.parent {
		if s.loop {
			return true
		}
	}
	return false
}

func (ns *nameScope) declaredHere(n string) bool {
	for _, x := range ns.names {
		if x == n {
			return true
		}
	}
	return false
}

func (ns *nameScope) visible() []string {
	seen := map[string]bool{}
	var out []string
	for s := ns; s != nil; s = s.parent {
		for _, n := range s.names {
			if !seen[n] {
				seen[n] = true
				out = append(out, n)
			}
		}
	}
	// stable order
	var ord []string
	for _, p := range xPool {
		if seen[p] {
			ord = append(ord, p)
		}
	}
	return ord
}

func (ns *nameScope) allObjs() []struct{ v, cls string } {
	var out []struct{ v, cls string }
	for s := ns; s != nil; s = s.parent {
		out = append(out, s.objs...)
	}
	return out
}

// stmts generates a statement list. top = may end with a 输出; depth limits nesting.
func (g *xGen) stmts(b *xBody, fs []*xBody, cs []*xClass, n int, depth int, top bool) []*xStmt {
	root := &nameScope{}
	if b.Param != "" {
		root.names = append(root.names, b.Param)
	}
	return g.stmtsIn(b, fs, cs, n, depth, top, &nameScope{parent: root})
}

func (g *xGen) showAll(ns *nameScope) *xStmt {
	vis := ns.visible()
	if len(vis) == 0 {
		return nil
	}
	return &xStmt{Kind: "showall", Shows: vis}
}

func (g *xGen) stmtsIn(b *xBody, fs []*xBody, cs []*xClass, n int, depth int, top bool, ns *nameScope) []*xStmt {
	var out []*xStmt
	afterCall := func() {
		if st := g.showAll(ns); st != nil {
			out = append(out, st)
		}
		if (b.Kind == "method" || b.Kind == "ctor") && g.t.Draw(2) == 1 {
			out = append(out, &xStmt{Kind: "showthis"})
		}
	}
	for i := 0; i < n; i++ {
		k := g.t.Draw(16)
		switch {
		case k <= 2:
			g.probes++
			out = append(out, &xStmt{Kind: "probe", Num: g.probes, Multi: g.t.Draw(5) == 4})
		case k == 3 && ns.inLoop() && g.t.Draw(2) == 1:
			// 结束循环 / 继续循环 under a constant condition
			out = append(out, &xStmt{Kind: "if", Cond: g.t.Draw(2) == 1, Then: []*xStmt{{Kind: []string{"break", "continue"}[g.t.Draw(2)]}}})
		case k == 3:
			out = append(out, &xStmt{Kind: "disp", Text: fmt.Sprintf("%s·%d", b.Name, g.t.Draw(90))})
		case k == 4 || k == 15:
			v := xPool[g.t.Draw(len(xPool))]
			if ns.declaredHere(v) {
				out = append(out, &xStmt{Kind: "set", Var: v, Num: g.t.Draw(50)})
			} else {
				vis := false
				for _, x := range ns.visible() {
					if x == v {
						vis = true
					}
				}
				if vis && g.t.Draw(2) == 0 {
					out = append(out, &xStmt{Kind: "set", Var: v, Num: g.t.Draw(50)})
				} else {
					ns.names = append(ns.names, v)
					out = append(out, &xStmt{Kind: "let", Var: v, Num: g.t.Draw(50)})
				}
			}
		case k == 5:
			if st := g.showAll(ns); st != nil {
				out = append(out, st)
			}
		case (k == 6 || k == 7) && len(fs) > 0:
			f := fs[g.t.Draw(len(fs))]
			st := &xStmt{Kind: "callf", Fn: f.Name, Var: g.local()}
			if f.Param != "" {
				st.HasArg, st.Arg = true, g.t.Draw(50)
			}
			if f.Recur {
				st.Arg = g.t.Draw(4) // recursion depth 0..3
				// depth is a size like any other: once per program, and only from the main body
				// (so that the cost stays linear), a recursion runs hundreds or thousands of frames deep
				if b.Kind == "program" && !g.usedDeep && g.t.Draw(3) == 2 {
					g.usedDeep = true
					st.Arg = []int{40, 333, 1023, 1024, 1025, 1300, 2000, 2600}[g.t.Draw(8)]
				}
			}
			if st.HasArg && g.t.Draw(10) == 9 {
				st.ArgBad = true
			}
			// a call with the wrong number of arguments: an error of the call statement — the
			// callee's own handlers have nothing to do with it
			if !st.ArgBad && !f.Recur && g.t.Draw(12) == 11 {
				st.Arity = 1
				if st.HasArg && g.t.Draw(2) == 1 {
					st.Arity = -1
				}
			}
			if !st.Multi && g.t.Draw(6) == 5 {
				st.Alias = "别" + g.local()
			}
			// one call in four is the second argument of a 显示 that continues on the next line
			st.Multi = g.t.Draw(4) == 3
			out = append(out, st)
			afterCall()
		case k == 8 && len(cs) > 0:
			var plain []*xClass
			for _, c := range cs {
				if !c.IsExc {
					plain = append(plain, c)
				}
			}
			if len(plain) > 0 {
				c := plain[g.t.Draw(len(plain))]
				v := g.local()
				ns.objs = append(ns.objs, struct{ v, cls string }{v, c.Name})
				out = append(out, &xStmt{Kind: "new", Class: c.Name, Var: v, Num: g.t.Draw(9)})
				afterCall()
			}
		case k == 9 && len(ns.allObjs()) > 0:
			objs := ns.allObjs()
			o := objs[g.t.Draw(len(objs))]
			var c *xClass
			for _, cc := range cs {
				if cc.Name == o.cls {
					c = cc
				}
			}
			if c != nil {
				m := c.Methods[g.t.Draw(len(c.Methods))]
				st := &xStmt{Kind: "callm", Obj: o.v, Fn: m.Name, Class: c.Name, Var: g.local()}
				if m.Param != "" {
					st.HasArg, st.Arg = true, g.t.Draw(50)
				}
				// a method chain whose second link is a built-in method that does not exist: the first
				// link runs completely, the fault belongs to the statement (a native frame at most)
				st.ChainBad = g.t.Draw(4) == 3
				out = append(out, st)
				afterCall()
			}
		case k == 10 && (b.Kind == "method" || b.Kind == "ctor"):
			if g.t.Draw(2) == 0 {
				out = append(out, &xStmt{Kind: "setthis"})
			} else {
				out = append(out, &xStmt{Kind: "showthis"})
			}
		case k == 11:
			cls := "异常"
			if g.t.Draw(3) == 0 {
				if ecs := excClassesOf(cs); len(ecs) > 0 {
					cls = ecs[g.t.Draw(len(ecs))]
				}
			}
			// a raise is usually conditional so that the code after it is reachable in other runs
			th := &xStmt{Kind: "throw", Class: cls, Text: fmt.Sprintf("%s抛%d", b.Name, g.t.Draw(90))}
			// messages are program-chosen text: percent signs, braces, back-references must survive verbatim
			if sfx := g.t.Draw(8); sfx >= 4 {
				th.Text += []string{"：折扣 15%", "：100%d 完成", "：%s%v%!", "：{#1}{}"}[sfx-4]
			}
			if g.t.Draw(3) == 0 {
				out = append(out, th)
			} else {
				out = append(out, &xStmt{Kind: "if", Cond: g.t.Draw(3) == 0, Then: []*xStmt{th}})
			}
		case k == 12:
			// failing built-in operations, two of them failing in the (simulated) file system:
			// a path that opens but cannot be read, and a path that does not exist
			st := &xStmt{Kind: []string{"div0", "conv", "ioread", "ioopen", "undef", "index", "nomethod", "nokey", "noprop", "badtype", "thrownum", "throwtext"}[g.t.Draw(12)], Var: g.local()}
			if g.t.Draw(3) == 0 {
				out = append(out, st)
			} else {
				out = append(out, &xStmt{Kind: "if", Cond: g.t.Draw(3) == 0, Then: []*xStmt{st}})
			}
		case k == 13 && depth < 3:
			st := &xStmt{Kind: "if", Cond: g.t.Draw(2) == 1}
			st.Then = g.stmtsIn(b, fs, cs, 1+g.t.Draw(2), depth+1, false, &nameScope{parent: ns})
			if g.t.Draw(2) == 1 {
				st.Else = g.stmtsIn(b, fs, cs, 1+g.t.Draw(2), depth+1, false, &nameScope{parent: ns})
			}
			// conditions are expressions like any other: the header's, or a 再如 branch's, may raise
			switch g.t.Draw(8) {
			case 5:
				st.CondRaise = true
			case 6, 7:
				st.ElifKind = []string{"true", "false", "raise", "raise"}[g.t.Draw(4)]
				st.Elif = g.stmtsIn(b, fs, cs, 1+g.t.Draw(2), depth+1, false, &nameScope{parent: ns})
			}
			out = append(out, st)
		case k == 14 && depth < 3:
			st := &xStmt{Kind: []string{"while", "iter"}[g.t.Draw(2)], Var: g.local(), Num: 1 + g.t.Draw(3)}
			st.Then = g.stmtsIn(b, fs, cs, 1+g.t.Draw(3), depth+1, false, &nameScope{parent: ns, loop: true})
			out = append(out, st)
		default:
			g.probes++
			out = append(out, &xStmt{Kind: "probe", Num: g.probes})
		}
	}
	if len(out) == 0 && !top {
		g.probes++
		out = append(out, &xStmt{Kind: "probe", Num: g.probes})
	}
	if top && b.Kind != "ctor" {
		rs := &xStmt{Kind: "ret", Text: b.Name + "终"}
		if vis := ns.visible(); len(vis) > 0 && g.t.Draw(3) == 0 {
			rs.RetVar = vis[g.t.Draw(len(vis))]
		}
		out = append(out, rs)
	}
	return out
}

// ------------------------------------------------------------------ renderer (assigns physical lines)

type xRender struct {
	noContent map[string]bool // exception classes without a 内容 property
	mixed     bool // line ends vary from line to line
	selective map[string]string // module name -> "a、b、c" for imports by name list
	quiet int // number of statements before which no layout noise is inserted
	sb   strings.Builder
	line int
	t    *zsim.Tape
	nl   string
}

func (x *xRender) emit(indent int, s string) int {
	x.line++
	ln := x.line
	x.sb.WriteString(strings.Repeat("\t", indent))
	x.sb.WriteString(s)
	if x.mixed {
		// a file edited on several systems: every line ends in LF or CRLF as it happens to
		x.sb.WriteString([]string{"\n", "\r\n"}[x.t.Draw(2)])
	} else {
		x.sb.WriteString(x.nl)
	}
	x.line += strings.Count(s, "\n")
	return ln
}

// noise inserts layout that must not confuse line counting
func (x *xRender) noise(indent int) {
	switch x.t.Draw(12) {
	case 1:
		x.emit(indent, "注：说明文字，宽字符：漢字カナ한글")
	case 2:
		x.emit(indent, "注：“多行注释\n"+strings.Repeat("\t", indent)+"第二行”")
	case 3:
		x.emit(indent, "// 行注释 😀")
	case 4:
		x.emit(indent, "令"+fmt.Sprintf("串%d", x.line)+" = “多行文本\n第二行\n第三行”")
	case 5: // an empty line inside a literal
		x.emit(indent, "令"+fmt.Sprintf("串%d", x.line)+" = “多行文本\n\n第三行”")
	case 6: // several empty lines, and a line break right before the closing quote
		x.emit(indent, "令"+fmt.Sprintf("串%d", x.line)+" = “甲\n\n\n\n乙\n”")
	case 7: // an empty line inside a comment
		x.emit(indent, "注：“多行注释\n\n"+strings.Repeat("\t", indent)+"第三行”")
	case 9: // runs of empty lines
		x.emit(0, "")
		x.emit(0, "")
	case 10: // (a line of white space only is an indentation error in Zn, so: three empty lines)
		x.emit(0, "")
		x.emit(0, "")
		x.emit(0, "")
	case 8: // literal and comment whose inner line breaks follow the file's own convention
		x.emit(indent, "令"+fmt.Sprintf("串%d", x.line)+" = “多行文本"+x.nl+x.nl+"第三行"+x.nl+"”")
	}
}

func (x *xRender) stmts(indent int, ss []*xStmt) {
	for _, s := range ss {
		if x.quiet > 0 {
			x.quiet--
		} else {
			x.noise(indent)
		}
		switch s.Kind {
		case "probe":
			if s.Multi {
				s.Line = x.emit(indent, fmt.Sprintf("（探针：%d、\n%s0）", s.Num, strings.Repeat("\t", indent+1)))
			} else {
				s.Line = x.emit(indent, fmt.Sprintf("（探针：%d）", s.Num))
			}
		case "disp":
			s.Line = x.emit(indent, fmt.Sprintf("（显示：“%s”）", s.Text))
		case "let":
			s.Line = x.emit(indent, fmt.Sprintf("令%s = %d", s.Var, s.Num))
		case "set":
			s.Line = x.emit(indent, fmt.Sprintf("%s = %d", s.Var, s.Num))
		case "showall":
			var parts []string
			for _, n := range s.Shows {
				parts = append(parts, fmt.Sprintf("“%s=”、%s", n, n))
			}
			s.Line = x.emit(indent, "（显示："+strings.Join(parts, "、")+"）")
		case "callf":
			call := "（" + s.Fn + "）"
			if s.HasArg {
				call = fmt.Sprintf("（%s：%d）", s.Fn, s.Arg)
			}
			if s.ArgBad {
				call = fmt.Sprintf("（%s：%d / 0）", s.Fn, s.Arg)
			}
			switch {
			case s.Arity > 0 && s.HasArg:
				call = fmt.Sprintf("（%s：%d、7）", s.Fn, s.Arg)
			case s.Arity > 0:
				call = fmt.Sprintf("（%s：7）", s.Fn)
			case s.Arity < 0:
				call = "（" + s.Fn + "）"
			}
			if s.Alias != "" {
				x.emit(indent, fmt.Sprintf("令%s = %s", s.Alias, s.Fn))
				call = strings.Replace(call, "（"+s.Fn, "（"+s.Alias, 1)
			}
			if s.Multi {
				s.Line = x.emit(indent, fmt.Sprintf("（显示：“%s=”、\n%s%s）", s.Var, strings.Repeat("\t", indent+1), call))
			} else {
				s.Line = x.emit(indent, fmt.Sprintf("令%s = %s", s.Var, call))
				x.emit(indent, fmt.Sprintf("（显示：“%s=”、%s）", s.Var, s.Var))
			}
		case "callm":
			call := fmt.Sprintf("以%s（%s）", s.Obj, s.Fn)
			if s.HasArg {
				call = fmt.Sprintf("以%s（%s：%d）", s.Obj, s.Fn, s.Arg)
			}
			if s.ChainBad {
				call += "、（无此法）"
			}
			s.Line = x.emit(indent, fmt.Sprintf("令%s = %s", s.Var, call))
			x.emit(indent, fmt.Sprintf("（显示：“%s=”、%s）", s.Var, s.Var))
		case "recurse":
			s.Line = x.emit(indent, "如果层 > 0：")
			s.Num = x.emit(indent+1, fmt.Sprintf("令%s = （%s：层 - 1）", s.Var, s.Fn))
			x.emit(indent+1, fmt.Sprintf("（显示：“%s=”、%s）", s.Var, s.Var))
		case "new":
			s.Line = x.emit(indent, fmt.Sprintf("令%s = （新建%s：%d）", s.Var, s.Class, s.Num))
		case "showthis":
			s.Line = x.emit(indent, "（显示：“其值=”、其值）")
		case "setthis":
			s.Line = x.emit(indent, "其值 = 其值 + 1")
		case "showexc":
			if x.noContent[s.Class] {
				s.Line = x.emit(indent, "（显示：“拦截到”、其码）")
			} else {
				s.Line = x.emit(indent, "（显示：“拦截到”、其内容）")
			}
		case "throw":
			s.Line = x.emit(indent, fmt.Sprintf("抛出%s：“%s”！", s.Class, s.Text))
		case "break":
			s.Line = x.emit(indent, "结束循环")
		case "continue":
			s.Line = x.emit(indent, "继续循环")
		case "declbad":
			if s.Num == 0 {
				// a local class whose property initialiser fails while the class is being declared
				s.Line = x.emit(indent, fmt.Sprintf("定义临%d：", x.line))
				x.emit(indent+1, "其值 = 1 / 0")
			} else {
				// a constructor declared for something that is not a class
				s.Line = x.emit(indent, "如何新建无此类？")
				x.emit(indent+1, "输入文")
				x.emit(indent+1, "其值 = 文")
			}
			x.emit(0, "")
		case "div0":
			s.Line = x.emit(indent, fmt.Sprintf("令%s = 1 / 0", s.Var))
		case "conv":
			s.Line = x.emit(indent, fmt.Sprintf("令%s = 以“非数”（转换数值）", s.Var))
		case "thrownum", "throwtext":
			// 抛出 of something that is not a type: an ordinary exception saying so
			s.Line = x.emit(indent, xFaultExpr[s.Kind][0])
		case "undef", "index", "nomethod", "nokey", "noprop", "badtype":
			s.Line = x.emit(indent, fmt.Sprintf("令%s = %s", s.Var, xFaultExpr[s.Kind][0]))
		case "ioread":
			s.Line = x.emit(indent, fmt.Sprintf("令%s = （读取文件：“%s”）", s.Var, excDirPath))
		case "ioopen":
			s.Line = x.emit(indent, fmt.Sprintf("令%s = （读取文件：“%s”）", s.Var, excMissingPath))
		case "ret":
			if s.RetVar != "" {
				s.Line = x.emit(indent, "输出"+s.RetVar)
			} else {
				s.Line = x.emit(indent, fmt.Sprintf("输出“%s”", s.Text))
			}
		case "if":
			c := "真"
			if !s.Cond {
				c = "假"
			}
			if s.CondRaise {
				c = " 1 / 0 > 0"
			}
			s.Line = x.emit(indent, "如果"+c+"：")
			x.stmts(indent+1, s.Then)
			if s.ElifKind != "" {
				x.emit(indent, "再如"+map[string]string{"true": " 1 > 0", "false": " 0 > 1", "raise": " 1 / 0 > 0"}[s.ElifKind]+"：")
				x.stmts(indent+1, s.Elif)
			}
			if s.Else != nil {
				x.emit(indent, "否则：")
				x.stmts(indent+1, s.Else)
			}
		case "while":
			x.emit(indent, fmt.Sprintf("令%s = 0", s.Var))
			s.Line = x.emit(indent, fmt.Sprintf("每当%s < %d：", s.Var, s.Num))
			x.emit(indent+1, fmt.Sprintf("%s = %s + 1", s.Var, s.Var))
			x.stmts(indent+1, s.Then)
		case "iter":
			var items []string
			for i := 0; i < s.Num; i++ {
				items = append(items, fmt.Sprint(i+1))
			}
			s.Line = x.emit(indent, fmt.Sprintf("以%s遍历【%s】：", s.Var, strings.Join(items, "，")))
			x.stmts(indent+1, s.Then)
		}
	}
}

func (x *xRender) body(indent int, b *xBody) {
	if b.Param != "" && b.Kind != "ctor" {
		x.emit(indent, "输入"+b.Param)
	}
	x.stmts(indent, b.Stmts)
	for _, c := range b.Catches {
		x.emit(indent, "")
		x.emit(indent, "拦截"+c.Class+"：")
		x.stmts(indent+1, c.Body)
	}
}

func renderModule(t *zsim.Tape, m *xModule, withProbe bool, selective map[string]string, noContent map[string]bool) {
	x := &xRender{t: t, nl: "\n", selective: selective, noContent: noContent}
	if m.CRLF {
		x.nl = "\r\n"
	}
	x.mixed = m.MixedEOL
	if m.Bare && m.Main != nil {
		// line 1 is the first top-level statement; the declarations follow, the handlers end the file
		x.quiet = 1
		x.stmts(0, m.Main.Stmts)
		x.emit(0, "")
	} else {
		if withProbe {
			x.emit(0, "导入《@探针》")
		}
		x.emit(0, "导入《@文件》")
		for _, im := range m.Imports {
			if names := x.selective[im]; names != "" {
				x.emit(0, "导入“"+im+"”的"+names)
			} else {
				x.emit(0, "导入“"+im+"”")
			}
		}
		x.emit(0, "")
	}
	for _, c := range m.Classes {
		x.emit(0, "定义"+c.Name+"：")
		if c.IsExc {
			prop := "内容"
			if c.NoContent {
				prop = "码"
			}
			x.emit(1, "其"+prop+" = “”")
			x.emit(0, "")
			x.emit(0, "如何新建"+c.Name+"？")
			x.emit(1, "输入文")
			x.emit(1, "其"+prop+" = 文")
			x.emit(0, "")
			continue
		}
		x.emit(1, "其值 = 0")
		x.emit(0, "")
		for _, mb := range c.Methods {
			x.emit(1, "如何"+mb.Name+"？")
			x.body(2, mb)
			x.emit(0, "")
		}
		x.emit(0, "如何新建"+c.Name+"？")
		x.emit(1, "输入初")
		x.emit(1, "其值 = 初")
		x.body(1, c.Ctor)
		x.emit(0, "")
	}
	for _, f := range m.Funcs {
		x.emit(0, "如何"+f.Name+"？")
		x.body(1, f)
		x.emit(0, "")
	}
	if m.Bare && m.Main != nil {
		for _, c := range m.Main.Catches {
			x.emit(0, "")
			x.emit(0, "拦截"+c.Class+"：")
			x.stmts(1, c.Body)
		}
	} else if m.Main != nil {
		x.body(0, m.Main)
	}
	m.Source = x.sb.String()
}

// ------------------------------------------------------------------ reference interpreter

type xObj struct {
	cls string
	mod string // module that declares the class (two private modules may both have a class 箱)
	val int
}

type xVal struct {
	num   *int
	str   *string
	obj   *xObj
	null  bool
}

func (v xVal) String() string {
	switch {
	case v.num != nil:
		return fmt.Sprint(*v.num)
	case v.str != nil:
		return *v.str
	case v.obj != nil:
		return "‹对象·" + v.obj.cls + "›"
	}
	return "空"
}

func nv(n int) xVal    { return xVal{num: &n} }
func sv(s string) xVal { return xVal{str: &s} }

type xRaise struct {
	class string // 异常 / custom class name / 探针异常
	msg   string
	code  string // what an exception object of a class without 内容 carries in its property 码
	kind  string // throw div0 conv probe.signal probe.goerror probe.runtime probe.custom
	chain []xFrameRef
	depth int
	cross bool
	site  string // kind of the body where it was raised
}

type xFrameRef struct {
	Module string
	Line   int
	Kind   string
}

type xFrame struct {
	body   *xBody
	this   *xObj
	exc    *xRaise // for handler frames
	scopes []map[string]xVal // innermost last
	line   int
	kind   string
}

func (f *xFrame) lookup(n string) (xVal, bool) {
	for i := len(f.scopes) - 1; i >= 0; i-- {
		if v, ok := f.scopes[i][n]; ok {
			return v, true
		}
	}
	return xVal{}, false
}

func (f *xFrame) declare(n string, v xVal) { f.scopes[len(f.scopes)-1][n] = v }

func (f *xFrame) assign(n string, v xVal) {
	for i := len(f.scopes) - 1; i >= 0; i-- {
		if _, ok := f.scopes[i][n]; ok {
			f.scopes[i][n] = v
			return
		}
	}
}

func (f *xFrame) get(n string) xVal { v, _ := f.lookup(n); return v }

type xRef struct {
	prog    *xProgram
	plan    xPlan
	count   int
	display []string
	frames  []*xFrame
	funcs   map[string]*xBody
	classes map[string]*xClass
	handled int // number of exceptions handled so far
	steps   int
}

func (m *xRef) chain() []xFrameRef {
	var out []xFrameRef
	for _, f := range m.frames {
		out = append(out, xFrameRef{Module: f.body.Module, Line: f.line, Kind: f.kind})
	}
	return out
}

func (m *xRef) raise(class, msg, kind string) *xRaise {
	top := m.frames[len(m.frames)-1]
	cross := false
	for _, f := range m.frames {
		if f.body.Module != m.frames[0].body.Module {
			cross = true
		}
	}
	return &xRaise{class: class, msg: msg, kind: kind, chain: m.chain(), depth: len(m.frames), cross: cross, site: top.kind}
}

// run executes a statement list in the top frame. ret != nil means 输出 was executed.
func (m *xRef) run(ss []*xStmt) (ret *xVal, ex *xRaise) {
	fr := m.frames[len(m.frames)-1]
	// the declarations of a block (定义, 如何) are evaluated before its other statements, in
	// textual order; a declaration that fails raises there, at its own line
	for _, s := range ss {
		if s.Kind == "declbad" {
			m.steps++
			fr.line = s.Line
			if s.Num == 0 {
				return nil, m.raise("异常", "被除数不得为0", "decl.initialiser")
			}
			return nil, m.raise("异常", "标识「无此类」未有定义", "decl.ctor-of-nothing")
		}
	}
	for _, s := range ss {
		m.steps++
		fr.line = s.Line
		switch s.Kind {
		case "probe":
			m.count++
			if m.plan.N > 0 && m.count == m.plan.N {
				switch m.plan.Kind {
				case "signal", "goerror":
					return nil, m.raise("异常", "探针故障", "probe."+m.plan.Kind)
				case "runtime":
					return nil, m.raise("异常", "索引超出此对象可用范围", "probe.runtime")
				case "custom":
					return nil, m.raise("探针异常", "探针故障", "probe.custom")
				}
			}
		case "disp":
			m.display = append(m.display, s.Text)
		case "let":
			fr.declare(s.Var, nv(s.Num))
		case "set":
			fr.assign(s.Var, nv(s.Num))
		case "showall":
			var parts []string
			for _, n := range s.Shows {
				parts = append(parts, n+"= "+fr.get(n).String())
			}
			m.display = append(m.display, strings.Join(parts, " "))
		case "showthis":
			m.display = append(m.display, "其值= "+fmt.Sprint(fr.this.val))
		case "setthis":
			fr.this.val++
		case "showexc":
			if c := m.classes[fr.exc.class]; c != nil && c.NoContent {
				m.display = append(m.display, "拦截到 "+fr.exc.code)
			} else {
				m.display = append(m.display, "拦截到 "+fr.exc.msg)
			}
		case "break":
			return nil, &xRaise{class: "\x00loop", kind: "break"}
		case "continue":
			return nil, &xRaise{class: "\x00loop", kind: "continue"}
		case "throw":
			if c := m.classes[s.Class]; c != nil && c.NoContent {
				// an object of a class without 内容: a handler of that class still catches it; uncaught,
				// there is no message to report
				ex := m.raise(s.Class, "", "throw")
				ex.code = s.Text
				return nil, ex
			}
			return nil, m.raise(s.Class, s.Text, "throw")
		case "div0":
			return nil, m.raise("异常", "被除数不得为0", "div0")
		case "conv":
			return nil, m.raise("异常", "转成数值失败，文本可能并不符合合适的数值格式", "conv")
		case "undef", "index", "nomethod", "nokey", "noprop", "badtype", "thrownum", "throwtext":
			return nil, m.raise("异常", xFaultExpr[s.Kind][1], s.Kind)
		case "ioread":
			return nil, m.raise("异常", "读取文件失败：read "+excDirPath+": is a directory", "ioread")
		case "ioopen":
			return nil, m.raise("异常", "打开文件失败：open "+excMissingPath+": no such file or directory", "ioopen")
		case "ret":
			var v xVal
			if s.RetVar != "" {
				v = fr.get(s.RetVar)
			} else {
				v = sv(s.Text)
			}
			return &v, nil
		case "if":
			if s.CondRaise {
				return nil, m.raise("异常", "被除数不得为0", "cond.if")
			}
			blk := s.Then
			if !s.Cond {
				blk = s.Else
				switch s.ElifKind {
				case "raise":
					// (the whole 如果 … 再如 … 否则 is one statement: the fault is reported at its first line)
					return nil, m.raise("异常", "被除数不得为0", "cond.elif")
				case "true":
					blk = s.Elif
				}
			}
			if r, e := m.block(fr, blk); r != nil || e != nil {
				return r, e
			}
			fr.line = s.Line
		case "while", "iter":
		loop:
			for i := 0; i < s.Num; i++ {
				fr.line = s.Line
				r, e := m.block(fr, s.Then)
				if e != nil && e.class == "\x00loop" {
					if e.kind == "break" {
						break loop
					}
					continue
				}
				if r != nil || e != nil {
					return r, e
				}
			}
		case "recurse":
			if lv := fr.get("层"); lv.num != nil && *lv.num > 0 {
				fr.line = s.Num // the call statement inside the branch
				v, e := m.call(m.funcs[s.Fn], nil, &xStmt{HasArg: true, Arg: *lv.num - 1})
				if e != nil {
					return nil, e
				}
				m.display = append(m.display, s.Var+"= "+v.String())
				fr.line = s.Line
			}
		case "callf":
			if s.ArgBad {
				return nil, m.raise("异常", "被除数不得为0", "div0")
			}
			if s.Arity != 0 {
				declared := 0
				if m.funcs[s.Fn].Param != "" {
					declared = 1
				}
				return nil, m.raise("异常", fmt.Sprintf("此方法定义了%d个参数，而实际输入%d个参数", declared, declared+s.Arity), "arity")
			}
			v, e := m.call(m.funcs[s.Fn], nil, s)
			if e != nil {
				return nil, e
			}
			if !s.Multi {
				fr.declare(s.Var, v)
			}
			m.display = append(m.display, s.Var+"= "+v.String())
		case "callm":
			o := fr.get(s.Obj).obj
			var mb *xBody
			for _, mm := range m.classOf(o.mod, s.Class).Methods {
				if mm.Name == s.Fn {
					mb = mm
				}
			}
			v, e := m.call(mb, o, s)
			if e != nil {
				return nil, e
			}
			if s.ChainBad {
				fr.line = s.Line
				return nil, m.raise("异常", "方法「无此法」不存在", "chain.nomethod")
			}
			fr.declare(s.Var, v)
			m.display = append(m.display, s.Var+"= "+v.String())
		case "new":
			c := m.classOf(fr.body.Module, s.Class)
			o := &xObj{cls: c.Name, mod: c.Module, val: s.Num}
			if _, e := m.call(c.Ctor, o, nil); e != nil {
				return nil, e
			}
			fr.declare(s.Var, xVal{obj: o})
		}
	}
	return nil, nil
}

// block runs a nested statement list in a scope of its own.
func (m *xRef) block(fr *xFrame, ss []*xStmt) (*xVal, *xRaise) {
	n := len(fr.scopes)
	fr.scopes = append(fr.scopes, map[string]xVal{})
	r, e := m.run(ss)
	fr.scopes = fr.scopes[:n]
	return r, e
}

// call executes a body in a new frame, including its handlers.
func (m *xRef) call(b *xBody, this *xObj, site *xStmt) (xVal, *xRaise) {
	depth := len(m.frames)
	params := map[string]xVal{}
	if b.Param != "" && site != nil && site.HasArg {
		params[b.Param] = nv(site.Arg)
	}
	fr := &xFrame{body: b, this: this, scopes: []map[string]xVal{params, {}}, kind: b.Kind}
	m.frames = append(m.frames, fr)
	ret, ex := m.run(b.Stmts)
	if ex != nil {
		for _, c := range b.Catches {
			if c.Class == ex.class {
				// unwind to this body, run the handler in a frame whose 其 is the exception
				m.frames = m.frames[:depth+1]
				hf := &xFrame{body: b, this: this, exc: ex, scopes: []map[string]xVal{params, {}}, kind: "handler"}
				m.frames = append(m.frames, hf)
				hret, hex := m.run(c.Body)
				if hex != nil {
					return xVal{}, hex // handlers do not protect themselves
				}
				m.handled++
				m.frames = m.frames[:depth]
				if hret != nil {
					return *hret, nil
				}
				return xVal{null: true}, nil
			}
		}
		return xVal{}, ex
	}
	m.frames = m.frames[:depth]
	if ret != nil {
		return *ret, nil
	}
	return xVal{null: true}, nil
}

type xExpect struct {
	Display []string
	Result  string // when no error
	Raise   *xRaise
	Handled int
	Probes  int
}

// classOf resolves a class name as seen from a module: the module's own class of that name
// first, then the (unique) imported one.
func (m *xRef) classOf(module, name string) *xClass {
	if c := m.classes[module+"/"+name]; c != nil {
		return c
	}
	return m.classes[name]
}

func refRun(p *xProgram, plan xPlan) *xExpect {
	m := &xRef{prog: p, plan: plan, funcs: map[string]*xBody{}, classes: map[string]*xClass{}}
	for _, mod := range p.Mods {
		for _, f := range mod.Funcs {
			m.funcs[f.Name] = f
		}
		for _, c := range mod.Classes {
			m.classes[c.Name] = c
			m.classes[mod.Name+"/"+c.Name] = c
		}
	}
	v, ex := m.call(p.Mods[0].Main, nil, nil)
	e := &xExpect{Display: m.display, Raise: ex, Handled: m.handled, Probes: m.count}
	if ex == nil {
		e.Result = v.String()
	}
	return e
}

// ------------------------------------------------------------------ the run

type excScenario struct {
	Modules  map[string]string `json:"modules"`
	Plan     xPlan             `json:"fault_plan"`
	Probes   int               `json:"probe_invocations_fault_free"`
	Expected string            `json:"expected"`
	Got      string            `json:"got"`
	Chain    string            `json:"expected_chain,omitempty"`
	GotChain string            `json:"got_chain,omitempty"`
}

// further runtime faults of ordinary expressions: expression, message of the exception
var xFaultExpr = map[string][2]string{
	"undef":    {"（无此函数）", "标识「无此函数」未有定义"},
	"index":    {"【1，2】 # 9", "索引超出此对象可用范围"},
	"nomethod": {"以1（无此法）", "方法「无此法」不存在"},
	"nokey":    {"【“k” = 1】 # “无”", "索引「无」并不存在于此对象中"},
	"noprop":   {"1 之 无此属性", "属性「无此属性」不存在"},
	"badtype":  {"“a” + 1", "表达式不符合期望的「数值」类型"},
	"thrownum": {"抛出数值：404！", "「数值」必须是一个类型！"},
	"throwtext": {"抛出真：“x”！", "「真」必须是一个类型！"},
}

// two paths of the simulated file system that make 读取文件 fail: one opens (it is a
// directory) and fails in read, the other does not exist
const (
	excDirPath     = "/proj/数据目录"
	excMissingPath = "/proj/无此文件.txt"
)

func modFile(name string) string {
	if name == "主" {
		return "/proj/main.zn"
	}
	return "/proj/" + name + ".zn"
}

// excRender renders every module of p to source text (m.Source); layout noise is drawn from t.
func excRender(t *zsim.Tape, p *xProgram) {
	// importers of a private module list its functions and its exception class by name
	selective := map[string]string{}
	for _, m := range p.Mods {
		if m.Private {
			var names []string
			for _, f := range m.Funcs {
				names = append(names, f.Name)
			}
			for _, c := range m.Classes {
				if c.IsExc {
					names = append(names, c.Name)
				}
			}
			selective[m.Name] = strings.Join(names, "、")
		}
	}
	noContent := map[string]bool{}
	for _, m := range p.Mods {
		for _, c := range m.Classes {
			if c.NoContent {
				noContent[c.Name] = true
			}
		}
	}
	for _, m := range p.Mods {
		renderModule(t, m, true, selective, noContent)
	}
}

func runExc(t *zsim.Tape, cfg *hlib.Config, prop string) *hlib.Outcome {
	p := genExcProgram(t)
	excRender(t, p)
	// fault-free reference run counts the dynamic probe invocations
	base := refRun(p, xPlan{})
	plan := xPlan{}
	if base.Probes > 0 && t.Draw(5) != 0 {
		plan.N = 1 + t.Draw(base.Probes)
		plan.Kind = []string{"signal", "goerror", "runtime", "custom"}[t.Draw(4)]
	}
	exp := refRun(p, plan)
	sc := &excScenario{Modules: map[string]string{}, Plan: plan, Probes: base.Probes}
	out := &hlib.Outcome{Scenario: sc}
	w := zsim.NewWorld(t)
	d := zsim.NewDisk(w)
	for _, m := range p.Mods {
		d.Put(modFile(m.Name), []byte(m.Source))
		sc.Modules[m.Name] = m.Source
	}
	d.MkdirAll(excDirPath)
	ps := &probeState{plan: plan}
	w.Ext["probe"] = ps
	w.Enter()
	res := runFile(w, newInterp(probeLib()), "/proj/main.zn", nil)
	w.Leave()
	out.Faults = w.Faults
	out.Probes = w.Probes
	out.Trace = w.Trace()
	raiseKind, caught := "none", "none"
	if exp.Raise != nil {
		raiseKind, caught = exp.Raise.kind, "uncaught"
	} else if exp.Handled > 0 {
		caught = "caught"
	}
	site, depth, cross := "-", 0, false
	if exp.Raise != nil {
		site, depth, cross = exp.Raise.site, exp.Raise.depth, exp.Raise.cross
	}
	out.Keys = []string{fmt.Sprintf("%s|%s|site=%s|depth=%d|cross=%v|h%d|mods%d|plan%s|probes%d", raiseKind, caught, site, depth, cross, exp.Handled, len(p.Mods), plan.Kind, min(base.Probes, 12))}
	if exp.Raise == nil && exp.Handled == 0 {
		out.Trivial = plan.N == 0
	}
	expOutcome := "result=" + exp.Result
	if exp.Raise != nil {
		expOutcome = "uncaught: " + exp.Raise.msg
	}
	sc.Expected = fmt.Sprintf("display=%q %s", exp.Display, expOutcome)
	sc.Got = res.String()
	describe := func() string {
		// what kind of raise (first one that mattered) for the signature
		return classifyExc(p, plan, exp)
	}
	fail := func(symptom, detail string) *hlib.Outcome {
		out.Sig = describe() + "/" + symptom
		out.Symptom = symptom
		out.Detail = detail + "\n  expected: " + sc.Expected + "\n  got: " + sc.Got
		return out
	}
	c09 := prop == "C09"
	if res.Panic != "" {
		if c09 {
			return fail("panic", "Go panic: "+res.Panic)
		}
		return out
	}
	// ---- C09 oracle
	agree := true
	var c09fail func() *hlib.Outcome
	gotDisp := strings.Join(res.Display, "\n")
	expDisp := strings.Join(exp.Display, "\n")
	switch {
	case exp.Raise == nil && res.Err != "":
		agree = false
		c09fail = func() *hlib.Outcome {
			return fail("error-instead-of-success", "the reference semantics complete normally; the run ended with an error")
		}
	case exp.Raise != nil && res.Err == "":
		agree = false
		c09fail = func() *hlib.Outcome {
			return fail("success-instead-of-error", "the reference semantics end with an uncaught exception; the run completed")
		}
	case gotDisp != expDisp:
		agree = false
		c09fail = func() *hlib.Outcome {
			return fail(dispSymptom(res.Display, exp.Display), "display trace differs from the reference semantics")
		}
	case exp.Raise == nil && res.Result != "*value.String:"+exp.Result && !(res.Result == "*value.Number:"+exp.Result) && !(exp.Result == "空" && res.Result == "*value.Null:空"):
		agree = false
		c09fail = func() *hlib.Outcome {
			if res.NilElem {
				return fail("nil-result", "the body's value is a nil element")
			}
			return fail("wrong-result", "result differs from the reference semantics")
		}
	case exp.Raise != nil && reportedMessage(res.Err) != exp.Raise.msg:
		agree = false
		c09fail = func() *hlib.Outcome {
			return fail("wrong-message", "the uncaught exception's message is not the reported one")
		}
	}
	if c09 {
		if !agree {
			return c09fail()
		}
		return out
	}
	// ---- C18 oracle: only meaningful when behaviour agreed and ended in an uncaught error
	if exp.Raise != nil && exp.Raise.kind == "arity" {
		// the call failed before the callee ran a statement: whether the callee's (already pushed)
		// frame is listed, and at which line, the property does not say
		return out
	}
	if !agree || exp.Raise == nil {
		out.Trivial = true
		return out
	}
	gotChain := parseChain(res.Err)
	expChain := exp.Raise.chain
	sc.Chain = fmt.Sprint(expChain)
	sc.GotChain = fmt.Sprint(gotChain)
	sym := compareChain(gotChain, expChain)
	if sym == "" {
		sym = sourceTextSymptom(gotChain, sc.Modules)
	}
	if sym != "" {
		after := "first-fault"
		if exp.Handled > 0 {
			after = "after-handled"
		}
		cross := "same-module"
		if exp.Raise.cross {
			cross = "cross-module"
		}
		out.Sig = fmt.Sprintf("chain:%s/%s/%s/%s", exp.Raise.kind, after, cross, sym)
		out.Symptom = sym
		out.Detail = fmt.Sprintf("reported location/call chain differs from the calls actually active at the fault (%s)\n  expected (outermost first): %v\n  reported: %v\n  error text:\n%s", sym, expChain, gotChain, res.Err)
		return out
	}
	return out
}

// reportedMessage extracts the message of the final "运行异常[code]：message" line of an error
// text (the quoted source lines above it may contain the same text and must not count).
func reportedMessage(e string) string {
	i := strings.LastIndex(e, "\n运行异常")
	if i < 0 {
		return "\x00no-runtime-error-line"
	}
	rest := e[i+1:]
	j := strings.Index(rest, "：")
	if j < 0 {
		return "\x00no-message"
	}
	return strings.TrimRight(rest[j+len("："):], "\n")
}

func dispSymptom(got, exp []string) string {
	n := len(got)
	if len(exp) < n {
		n = len(exp)
	}
	i := 0
	for i < n && got[i] == exp[i] {
		i++
	}
	switch {
	case i == len(exp) && len(got) > len(exp):
		return "extra-statements-ran"
	case i == len(got) && len(exp) > len(got):
		return "statements-skipped"
	}
	e := exp[i]
	switch {
	case strings.HasPrefix(e, "拦截到"):
		return "handler-not-run"
	case strings.HasPrefix(e, "其值="):
		return "wrong-this"
	case strings.Contains(e, "= "):
		return "wrong-local-or-call-value"
	}
	return "display-differs"
}

// classifyExc names the situation for the signature.
func classifyExc(p *xProgram, plan xPlan, exp *xExpect) string {
	kind := "no-raise"
	caught := "n/a"
	cross := "same-module"
	site := "program"
	if exp.Raise != nil {
		kind = exp.Raise.kind
		caught = "uncaught"
		if exp.Raise.cross {
			cross = "cross-module"
		}
		site = exp.Raise.site
		if exp.Handled > 0 {
			caught = "uncaught-after-handled"
		}
	} else if exp.Handled > 0 {
		caught = "caught"
		kind = "handled"
		if plan.N > 0 {
			kind = "probe." + plan.Kind + "+"
		}
		if len(p.Mods) > 1 {
			cross = "multi-module"
		}
	}
	return fmt.Sprintf("%s/%s/%s/%s", kind, caught, cross, site)
}

type chainEntry struct {
	Module string
	Line   int
	Native bool
	Text   string // quoted source line, when the report has one
}

// parseChain extracts (module, line) entries, outermost first, from exec.DisplayError text.
func parseChain(e string) []chainEntry {
	var out []chainEntry
	lines := strings.Split(e, "\n")
	for li, raw := range lines {
		ln := strings.TrimSpace(raw)
		var line int
		var mod string
		n := len(out)
		switch {
		case strings.HasPrefix(ln, "在主模块中，位于第"):
			fmt.Sscanf(strings.TrimPrefix(ln, "在主模块中，位于第"), "%d", &line)
			out = append(out, chainEntry{"主", line, false, ""})
		case strings.HasPrefix(ln, "来自主模块，第"):
			fmt.Sscanf(strings.TrimPrefix(ln, "来自主模块，第"), "%d", &line)
			out = append(out, chainEntry{"主", line, false, ""})
		case strings.HasPrefix(ln, "在模块“"):
			rest := strings.TrimPrefix(ln, "在模块“")
			i := strings.Index(rest, "”")
			if i >= 0 {
				mod = rest[:i]
				fmt.Sscanf(strings.TrimPrefix(rest[i:], "”中，位于第"), "%d", &line)
				out = append(out, chainEntry{mod, line, strings.HasPrefix(mod, "@"), ""})
			}
		case strings.HasPrefix(ln, "来自“"):
			rest := strings.TrimPrefix(ln, "来自“")
			i := strings.Index(rest, "”")
			if i >= 0 {
				mod = rest[:i]
				fmt.Sscanf(strings.TrimPrefix(rest[i:], "”模块，第"), "%d", &line)
				out = append(out, chainEntry{mod, line, strings.HasPrefix(mod, "@"), ""})
			}
		case strings.HasPrefix(ln, "在 <内置模块>"), strings.HasPrefix(ln, "来自 <内置模块>"):
			out = append(out, chainEntry{"<native>", 0, true, ""})
		}
		if len(out) > n && li+1 < len(lines) && strings.HasPrefix(lines[li+1], "    ") {
			out[len(out)-1].Text = strings.TrimSpace(lines[li+1])
		}
	}
	return out
}

// sourceTextSymptom checks the quoted source line of every entry that has one against the
// physical line of that module's source.
func sourceTextSymptom(got []chainEntry, mods map[string]string) string {
	for _, e := range got {
		if e.Native || e.Text == "" || e.Text == "[ --内部程序-- ]" {
			continue
		}
		src, ok := mods[e.Module]
		if !ok {
			continue
		}
		ls := strings.Split(strings.ReplaceAll(src, "\r\n", "\n"), "\n")
		if e.Line < 1 || e.Line > len(ls) {
			return "source-text-line-out-of-range"
		}
		if strings.TrimSpace(ls[e.Line-1]) != e.Text {
			return "wrong-source-text"
		}
	}
	return ""
}

// compareChain compares the reported chain with the active frames. Library/native frames at
// the innermost end are ignored; a handler may be reported as a frame of its own or merged
// into its body's frame; both outermost-first and innermost-first listings are accepted.
func compareChain(got []chainEntry, exp []xFrameRef) string {
	var g []chainEntry
	for _, e := range got {
		if !e.Native {
			g = append(g, e)
		}
	}
	variants := [][]xFrameRef{exp}
	// merged-handler variant
	var merged []xFrameRef
	for i, f := range exp {
		if f.Kind == "handler" && i > 0 {
			merged[len(merged)-1] = xFrameRef{Module: f.Module, Line: f.Line, Kind: "handler"}
			continue
		}
		merged = append(merged, f)
	}
	variants = append(variants, merged)
	best := ""
	for _, v := range variants {
		for _, rev := range []bool{false, true} {
			vv := v
			if rev {
				vv = make([]xFrameRef, len(v))
				for i := range v {
					vv[len(v)-1-i] = v[i]
				}
			}
			s := chainDiff(g, vv)
			if s == "" {
				return ""
			}
			if best == "" {
				best = s
			}
		}
	}
	return best
}

func chainDiff(g []chainEntry, e []xFrameRef) string {
	if len(g) > len(e) {
		return "stale-frame"
	}
	if len(g) < len(e) {
		return "missing-frame"
	}
	for i := range g {
		if g[i].Module != e[i].Module {
			return "wrong-module"
		}
	}
	for i := range g {
		if g[i].Line != e[i].Line {
			if i == len(g)-1 {
				return "wrong-line-innermost"
			}
			return "wrong-line-call-site"
		}
	}
	return ""
}

func min(a, b int) int {
	if a < b {
		return a
	}
	return b
}
