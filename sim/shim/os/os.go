// Package os is the simulator's stand-in for the standard os package inside transformed
// Zn packages (same package name, so the source text of Zn is otherwise untouched).
// Without an active world (or without a simulated disk/kernel in it) everything
// delegates to the real package, so the repository's own tests behave as before.
package os

import (
	"io"
	"io/fs"
	ros "os"

	"github.com/DemoHn/Zn/znverif/zsim"
)

type (
	FileInfo  = fs.FileInfo
	FileMode  = fs.FileMode
	DirEntry  = fs.DirEntry
	Signal    = ros.Signal
	PathError = fs.PathError
)

const (
	O_RDONLY = ros.O_RDONLY
	O_WRONLY = ros.O_WRONLY
	O_RDWR   = ros.O_RDWR
	O_CREATE = ros.O_CREATE
	O_TRUNC  = ros.O_TRUNC
	O_APPEND = ros.O_APPEND
	O_EXCL   = ros.O_EXCL
	O_SYNC   = ros.O_SYNC

	ModeNamedPipe = fs.ModeNamedPipe
	ModeDir       = fs.ModeDir
	ModePerm      = fs.ModePerm
)

var (
	ErrNotExist    = fs.ErrNotExist
	ErrExist       = fs.ErrExist
	ErrPermission  = fs.ErrPermission
	ErrClosed      = fs.ErrClosed
	ErrProcessDone = ros.ErrProcessDone

	Interrupt Signal = ros.Interrupt
	Kill      Signal = ros.Kill
)

func IsNotExist(err error) bool   { return ros.IsNotExist(err) }
func IsExist(err error) bool      { return ros.IsExist(err) }
func IsPermission(err error) bool { return ros.IsPermission(err) }

// File wraps a real file, a simulated disk file, a display sink or a kernel descriptor.
type File struct {
	real *ros.File
	sim  *zsim.SimFile
	std  int // 1 = stdout, 2 = stderr of the simulated process
	kfd  *zsim.FD
	name string
	// directory handles: entries in directory order, read position
	dirEntries []DirEntry
	dirPos     int
	dirRead    bool
}

var (
	Stdout = &File{real: ros.Stdout, std: 1, name: "/dev/stdout"}
	Stderr = &File{real: ros.Stderr, std: 2, name: "/dev/stderr"}
	Stdin  = &File{real: ros.Stdin, name: "/dev/stdin"}
)

func (f *File) Name() string { return f.name }

func (f *File) Write(b []byte) (int, error) {
	if f.std != 0 {
		if w := zsim.W; w != nil {
			if f.std == 1 {
				w.Out.Write(b)
			} else {
				w.Logf("stderr: %s", string(b))
			}
			return len(b), nil
		}
		return f.real.Write(b)
	}
	if f.kfd != nil {
		return f.kfd.Write(b)
	}
	if f.sim != nil {
		return f.sim.Write(b)
	}
	if f.real != nil {
		return f.real.Write(b)
	}
	return 0, &fs.PathError{Op: "write", Path: f.name, Err: fs.ErrInvalid}
}

func (f *File) WriteString(s string) (int, error) { return f.Write([]byte(s)) }

func (f *File) Sync() error {
	if f.sim != nil {
		return f.sim.Sync()
	}
	if f.real != nil && f.std == 0 {
		return f.real.Sync()
	}
	return nil
}

func (f *File) Stat() (FileInfo, error) {
	if f.sim != nil {
		return f.sim.Info(), nil
	}
	if f.real != nil {
		return f.real.Stat()
	}
	return nil, &fs.PathError{Op: "stat", Path: f.name, Err: fs.ErrInvalid}
}

// ReadDir on an open directory follows (*os.File).ReadDir: entries come in DIRECTORY order (not
// sorted — only os.ReadDir sorts), n > 0 pages through them and ends with io.EOF.
func (f *File) ReadDir(n int) ([]DirEntry, error) {
	if f.sim != nil {
		if !f.dirRead {
			es, err := disk().ReadDirNative(f.sim.Path)
			if err != nil {
				return nil, err
			}
			f.dirEntries, f.dirRead = es, true
		}
		if n <= 0 {
			es := f.dirEntries[f.dirPos:]
			f.dirPos = len(f.dirEntries)
			return es, nil
		}
		if f.dirPos >= len(f.dirEntries) {
			return nil, io.EOF
		}
		end := f.dirPos + n
		if end > len(f.dirEntries) {
			end = len(f.dirEntries)
		}
		es := f.dirEntries[f.dirPos:end]
		f.dirPos = end
		return es, nil
	}
	if f.real != nil {
		return f.real.ReadDir(n)
	}
	return nil, &fs.PathError{Op: "readdir", Path: f.name, Err: fs.ErrInvalid}
}

func (f *File) Read(b []byte) (int, error) {
	if f.sim != nil {
		n, err := f.sim.Read(b)
		// the return from a system call is a point where a real scheduler may switch: the
		// bytes are in b, the caller has not looked at them yet
		zsim.Yield("os.File.Read:return")
		return n, err
	}
	if f.kfd != nil {
		return f.kfd.Read(b)
	}
	if f.real != nil {
		return f.real.Read(b)
	}
	return 0, &fs.PathError{Op: "read", Path: f.name, Err: fs.ErrInvalid}
}

func (f *File) Close() error {
	if f.sim != nil {
		return f.sim.Close()
	}
	if f.kfd != nil {
		return f.kfd.Close()
	}
	if f.real != nil && f.std == 0 {
		return f.real.Close()
	}
	return nil
}

func (f *File) Fd() uintptr {
	if f.kfd != nil {
		return uintptr(f.kfd.Num)
	}
	if f.real != nil {
		return f.real.Fd()
	}
	return ^uintptr(0)
}

// KFD exposes the kernel descriptor to the other shims (net, exec).
func (f *File) KFD() *zsim.FD { return f.kfd }

// FromKFD wraps a kernel descriptor (used by the net and exec shims).
func FromKFD(k *zsim.FD, name string) *File { return &File{kfd: k, name: name} }

func disk() *zsim.Disk {
	if w := zsim.W; w != nil {
		return w.Disk
	}
	return nil
}

func Stat(name string) (FileInfo, error) {
	if d := disk(); d != nil {
		return d.Stat(name)
	}
	return ros.Stat(name)
}

func Open(name string) (*File, error) {
	if d := disk(); d != nil {
		sf, err := d.Open(name)
		if err != nil {
			return nil, err
		}
		return &File{sim: sf, name: name}, nil
	}
	f, err := ros.Open(name)
	if err != nil {
		return nil, err
	}
	return &File{real: f, name: name}, nil
}

func OpenFile(name string, flag int, perm FileMode) (*File, error) {
	if w := zsim.W; w != nil && w.K != nil && (w.Disk == nil || w.K.HasFifo(name)) {
		k, err := w.K.OpenFile(name, flag)
		if err != nil {
			return nil, err
		}
		return &File{kfd: k, name: name}, nil
	}
	if d := disk(); d != nil {
		sf, err := d.OpenFile(name, flag, perm)
		if err != nil {
			return nil, err
		}
		return &File{sim: sf, name: name}, nil
	}
	f, err := ros.OpenFile(name, flag, perm)
	if err != nil {
		return nil, err
	}
	return &File{real: f, name: name}, nil
}

func NewFile(fd uintptr, name string) *File {
	if w := zsim.W; w != nil && w.K != nil {
		k := w.K.LookupFD(int(fd))
		if k == nil {
			return nil
		}
		return &File{kfd: k, name: name}
	}
	return &File{real: ros.NewFile(fd, name), name: name}
}

func WriteFile(name string, data []byte, perm FileMode) error {
	if d := disk(); d != nil {
		return d.WriteFile(name, data, perm)
	}
	return ros.WriteFile(name, data, perm)
}

func ReadFile(name string) ([]byte, error) {
	if d := disk(); d != nil {
		f, err := d.Open(name)
		if err != nil {
			return nil, err
		}
		defer f.Close()
		var out []byte
		buf := make([]byte, 512)
		for {
			n, err := f.Read(buf)
			out = append(out, buf[:n]...)
			if err != nil {
				if err.Error() == "EOF" {
					return out, nil
				}
				return out, err
			}
		}
	}
	return ros.ReadFile(name)
}

func ReadDir(name string) ([]DirEntry, error) {
	if d := disk(); d != nil {
		return d.ReadDir(name)
	}
	return ros.ReadDir(name)
}

func Remove(name string) error {
	if d := disk(); d != nil {
		if !d.Exists(name) {
			return &fs.PathError{Op: "remove", Path: name, Err: fs.ErrNotExist}
		}
		d.Remove(name)
		return nil
	}
	return ros.Remove(name)
}

func Create(name string) (*File, error) { return OpenFile(name, O_RDWR|O_CREATE|O_TRUNC, 0o666) }

func Mkdir(name string, perm FileMode) error {
	if d := disk(); d != nil {
		return d.Mkdir(name)
	}
	return ros.Mkdir(name, perm)
}

func MkdirAll(name string, perm FileMode) error {
	if d := disk(); d != nil {
		d.MkdirAll(name)
		return nil
	}
	return ros.MkdirAll(name, perm)
}

func Rename(from, to string) error {
	if d := disk(); d != nil {
		return d.Rename(from, to)
	}
	return ros.Rename(from, to)
}

func Lstat(name string) (FileInfo, error) { return Stat(name) }

func Getwd() (string, error) {
	if d := disk(); d != nil {
		return d.Getwd(), nil
	}
	return ros.Getwd()
}

func Chdir(dir string) error {
	if d := disk(); d != nil {
		return d.Chdir(dir)
	}
	return ros.Chdir(dir)
}

func TempDir() string {
	if disk() != nil {
		return "/tmp"
	}
	return ros.TempDir()
}

func Hostname() (string, error) {
	if zsim.W != nil {
		return "sim", nil
	}
	return ros.Hostname()
}

// ---- process-level API (kernel profile)

// Args is swapped by the scheduler at every context switch between simulated processes.
var Args = ros.Args

func init() { zsim.RegisterArgsSwap(func(a []string) { Args = a }, ros.Args) }

func Getenv(key string) string {
	if w := zsim.W; w != nil && w.K != nil {
		return w.K.Getenv(key)
	}
	return ros.Getenv(key)
}

func Environ() []string {
	if w := zsim.W; w != nil && w.K != nil {
		return w.K.Environ()
	}
	return ros.Environ()
}

func Getpid() int {
	if w := zsim.W; w != nil && w.K != nil {
		return w.K.Getpid()
	}
	return ros.Getpid()
}

func Getppid() int {
	if w := zsim.W; w != nil && w.K != nil {
		return w.K.Getppid()
	}
	return ros.Getppid()
}

func Exit(code int) {
	if w := zsim.W; w != nil && w.K != nil {
		w.K.Exit(code) // never returns
	}
	ros.Exit(code)
}

// ---- further surface, so that a realistic change to Zn still compiles against the shim

func (f *File) Seek(offset int64, whence int) (int64, error) {
	if f.real != nil {
		return f.real.Seek(offset, whence)
	}
	return 0, &fs.PathError{Op: "seek", Path: f.name, Err: fs.ErrInvalid}
}

func (f *File) Chmod(mode FileMode) error { return nil }
func (f *File) Truncate(size int64) error {
	if f.real != nil {
		return f.real.Truncate(size)
	}
	return &fs.PathError{Op: "truncate", Path: f.name, Err: fs.ErrInvalid}
}
func (f *File) Readdirnames(n int) ([]string, error) {
	es, err := f.ReadDir(n)
	var out []string
	for _, e := range es {
		out = append(out, e.Name())
	}
	return out, err
}

func Chmod(name string, mode FileMode) error {
	if disk() != nil {
		return nil
	}
	return ros.Chmod(name, mode)
}

func RemoveAll(name string) error {
	if d := disk(); d != nil {
		for _, p := range d.Paths() {
			if p == name || len(p) > len(name) && p[:len(name)+1] == name+"/" {
				d.Remove(p)
			}
		}
		return nil
	}
	return ros.RemoveAll(name)
}

func Executable() (string, error) {
	if w := zsim.W; w != nil && w.K != nil && len(Args) > 0 {
		return Args[0], nil
	}
	return ros.Executable()
}

func Getuid() int  { return ros.Getuid() }
func Getgid() int  { return ros.Getgid() }
func Geteuid() int { return ros.Geteuid() }

func LookupEnv(key string) (string, bool) {
	if w := zsim.W; w != nil && w.K != nil {
		for _, kv := range w.K.Environ() {
			if len(kv) > len(key) && kv[:len(key)+1] == key+"=" {
				return kv[len(key)+1:], true
			}
		}
		return "", false
	}
	return ros.LookupEnv(key)
}

func Setenv(key, value string) error {
	if w := zsim.W; w != nil && w.K != nil {
		w.K.Setenv(key, value)
		return nil
	}
	return ros.Setenv(key, value)
}

func UserHomeDir() (string, error) {
	if zsim.W != nil {
		return "/home/sim", nil
	}
	return ros.UserHomeDir()
}

func IsTimeout(err error) bool { return ros.IsTimeout(err) }

func SameFile(a, b FileInfo) bool { return ros.SameFile(a, b) }

const DevNull = ros.DevNull
const PathSeparator = ros.PathSeparator

var ErrInvalid = fs.ErrInvalid
var ErrDeadlineExceeded = ros.ErrDeadlineExceeded

// FindProcess / Process: only what a supervisor typically needs.
type Process struct {
	Pid int
}

func FindProcess(pid int) (*Process, error) { return &Process{Pid: pid}, nil }

func (p *Process) Kill() error {
	if w := zsim.W; w != nil && w.K != nil {
		if zsim.Dying() {
			return nil
		}
		return w.K.Kill(p.Pid)
	}
	rp, err := ros.FindProcess(p.Pid)
	if err != nil {
		return err
	}
	return rp.Kill()
}

func (p *Process) Signal(sig Signal) error {
	if w := zsim.W; w != nil && w.K != nil {
		if sig == Kill {
			return p.Kill()
		}
		w.K.Signal(p.Pid, sig.String())
		return nil
	}
	rp, err := ros.FindProcess(p.Pid)
	if err != nil {
		return err
	}
	return rp.Signal(sig)
}
