// Package syscall stands in for syscall inside transformed pkg/server.
package syscall

import (
	rsyscall "syscall"

	"github.com/DemoHn/Zn/znverif/zsim"
)

type Signal = rsyscall.Signal

const (
	SIGTERM = rsyscall.SIGTERM
	SIGINT  = rsyscall.SIGINT
	SIGKILL = rsyscall.SIGKILL
)

func Mkfifo(path string, mode uint32) error {
	if w := zsim.W; w != nil && w.K != nil {
		return w.K.Mkfifo(path)
	}
	return rsyscall.Mkfifo(path, mode)
}

func CloseOnExec(fd int) {
	if w := zsim.W; w != nil && w.K != nil {
		return
	}
	rsyscall.CloseOnExec(fd)
}

type Errno = rsyscall.Errno

const (
	SIGHUP  = rsyscall.SIGHUP
	SIGQUIT = rsyscall.SIGQUIT
	SIGUSR1 = rsyscall.SIGUSR1
	SIGUSR2 = rsyscall.SIGUSR2
	SIGCHLD = rsyscall.SIGCHLD
	SIGPIPE = rsyscall.SIGPIPE

	EPIPE  = rsyscall.EPIPE
	EAGAIN = rsyscall.EAGAIN
	EINTR  = rsyscall.EINTR
	ENOENT = rsyscall.ENOENT
	EEXIST = rsyscall.EEXIST
	ESRCH  = rsyscall.ESRCH
	ECHILD = rsyscall.ECHILD
	EACCES = rsyscall.EACCES
	EINVAL = rsyscall.EINVAL
)

func Getpid() int {
	if w := zsim.W; w != nil && w.K != nil {
		return w.K.Getpid()
	}
	return rsyscall.Getpid()
}

func Getppid() int {
	if w := zsim.W; w != nil && w.K != nil {
		return w.K.Getppid()
	}
	return rsyscall.Getppid()
}

func Kill(pid int, sig Signal) error {
	if w := zsim.W; w != nil && w.K != nil {
		if zsim.Dying() {
			return nil
		}
		if sig == SIGKILL {
			return w.K.Kill(pid)
		}
		if sig == 0 {
			if p := w.K.Proc(pid); p == nil || p.Exited {
				return rsyscall.ESRCH
			}
			return nil
		}
		w.K.Signal(pid, sig.String())
		return nil
	}
	return rsyscall.Kill(pid, sig)
}

func Unlink(path string) error {
	if w := zsim.W; w != nil && w.K != nil {
		return nil
	}
	return rsyscall.Unlink(path)
}
