// Package syscall stands in for syscall inside transformed pkg/server.
package syscall

import (
	rsyscall "syscall"

	"github.com/DemoHn/Zn/znverif/zsim"
)

type Signal = rsyscall.Signal

const (
	SIGTERM = rsyscall.SIGTERM
	SIGINT  = rsyscall.SIGINT
	SIGKILL = rsyscall.SIGKILL
)

func Mkfifo(path string, mode uint32) error {
	if w := zsim.W; w != nil && w.K != nil {
		return w.K.Mkfifo(path)
	}
	return rsyscall.Mkfifo(path, mode)
}

func CloseOnExec(fd int) {
	if w := zsim.W; w != nil && w.K != nil {
		return
	}
	rsyscall.CloseOnExec(fd)
}
