// Package sync is the simulator's stand-in for sync in transformed Zn packages. Everything
// but Pool is the real thing (type aliases, so lock tracking and method sets are unchanged).
// Pool is modelled: the real one hands out objects depending on which P a goroutine runs on
// and on GC timing, neither of which a run may depend on. Inside a world a Pool is a stack
// owned by that world (LIFO; under tape-chosen iteration orders the choice is drawn) — Get returns the most recently Put object if there is one —
// which is one of the behaviours the real Pool may show and the one that makes a misuse
// (an object put back twice, or used after it was put back) visible soonest.
package sync

import (
	"fmt"
	rsync "sync"

	"github.com/DemoHn/Zn/znverif/zsim"
)

type (
	Mutex     = rsync.Mutex
	RWMutex   = rsync.RWMutex
	WaitGroup = rsync.WaitGroup
	Map       = rsync.Map
	Cond      = rsync.Cond
	Locker    = rsync.Locker
)

// Once: under the scheduler a task that calls Do while another task is still inside f (it was
// pre-empted there) waits inside the simulator; blocking in the real Once would put every
// goroutine of the process to sleep.
type Once struct {
	real    rsync.Once
	done    bool
	running bool
}

func (o *Once) Do(f func()) {
	if !zsim.Active() {
		o.real.Do(f)
		return
	}
	if o.running {
		zsim.Block("once", func() bool { return !o.running })
	}
	if o.done {
		return
	}
	o.running = true
	defer func() { o.running = false; o.done = true }()
	o.real.Do(f)
}

func NewCond(l Locker) *Cond { return rsync.NewCond(l) }

func OnceFunc(f func()) func() { return rsync.OnceFunc(f) }

type Pool struct {
	New  func() interface{}
	real rsync.Pool
}

type poolState struct{ free []interface{} }

func (p *Pool) state(w *zsim.World) *poolState {
	k := fmt.Sprintf("sync.Pool@%p", p)
	st, _ := w.Ext[k].(*poolState)
	if st == nil {
		st = &poolState{}
		w.Ext[k] = st
	}
	return st
}

func (p *Pool) Get() interface{} {
	if w := zsim.W; w != nil {
		st := p.state(w)
		if n := len(st.free); n > 0 {
			// which pooled object comes back — or none, because a collection emptied the pool — is
			// nothing a program may depend on: under tape-chosen iteration orders it is drawn too
			// (the canonical run keeps the LIFO choice)
			i := n - 1
			const site = "sync.Pool-choice" // treated like one more iteration-order site (attribution)
			w.MapHits[site]++
			if w.MapMode == zsim.MapTape && (w.MapOnly == nil || w.MapOnly[site]) {
				w.MapPermute[site]++
				switch w.T.Draw(3) {
				case 1:
					st.free = nil
					w.Probes["pool-emptied-by-collection"]++
					if p.New != nil {
						return p.New()
					}
					return nil
				case 2:
					i = w.T.Draw(n)
				}
			}
			x := st.free[i]
			st.free = append(st.free[:i], st.free[i+1:]...)
			w.Probes["pool-get-reused"]++
			zsim.Acquire(x) // a recycled object: its previous user's work happens before ours
			return x
		}
		if p.New != nil {
			return p.New()
		}
		return nil
	}
	if x := p.real.Get(); x != nil {
		return x
	}
	if p.New != nil {
		return p.New()
	}
	return nil
}

func (p *Pool) Put(x interface{}) {
	if x == nil {
		return
	}
	if w := zsim.W; w != nil {
		st := p.state(w)
		st.free = append(st.free, x)
		zsim.Release(x)
		return
	}
	p.real.Put(x)
}
