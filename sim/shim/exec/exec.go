// Package exec stands in for os/exec inside transformed pkg/server.
package exec

import (
	"errors"
	"fmt"
	"io"
	rexec "os/exec"

	sos "github.com/DemoHn/Zn/znverif/shim/os"
	"github.com/DemoHn/Zn/znverif/zsim"
)

type Cmd struct {
	Path       string
	Args       []string
	Env        []string
	Stdout     io.Writer
	Stderr     io.Writer
	Stdin      io.Reader
	ExtraFiles []*sos.File
	Process    *Process
	// ProcessState is set by Wait
	ProcessState *ProcessState
	real         *rexec.Cmd
	proc         *zsim.Proc
}

type Process struct {
	Pid  int
	proc *zsim.Proc
}

type ExitError struct{ Code int }

func (e *ExitError) Error() string { return fmt.Sprintf("exit status %d", e.Code) }

func Command(name string, arg ...string) *Cmd {
	return &Cmd{Path: name, Args: append([]string{name}, arg...)}
}

func (c *Cmd) Start() error {
	w := zsim.W
	if w == nil || w.K == nil {
		return errors.New("exec shim: no simulated kernel")
	}
	if zsim.Dying() {
		return errors.New("dying")
	}
	var extra []*zsim.FD
	for _, f := range c.ExtraFiles {
		extra = append(extra, f.KFD())
	}
	p, err := w.K.StartProc(c.Args, c.Env, extra)
	if err != nil {
		return err
	}
	c.proc = p
	c.Process = &Process{Pid: p.Pid, proc: p}
	zsim.Yield("exec.start")
	return nil
}

func (c *Cmd) Wait() error {
	if c.proc == nil {
		return errors.New("exec: not started")
	}
	code := zsim.W.K.WaitProc(c.proc)
	// like os/exec: the state of the exited process stays with the command
	c.ProcessState = &ProcessState{code: code, signaled: c.proc.Killed}
	if code != 0 {
		return &ExitError{Code: code}
	}
	return nil
}

func (p *Process) Kill() error {
	if zsim.Dying() || zsim.W == nil || zsim.W.K == nil {
		return nil
	}
	if p.proc.Exited {
		return sos.ErrProcessDone
	}
	return zsim.W.K.Kill(p.Pid)
}

func (c *Cmd) Run() error {
	if err := c.Start(); err != nil {
		return err
	}
	return c.Wait()
}

func (c *Cmd) String() string { return fmt.Sprint(c.Args) }

func (p *Process) Signal(sig sos.Signal) error {
	if zsim.Dying() || zsim.W == nil || zsim.W.K == nil {
		return nil
	}
	if p.proc.Exited {
		return sos.ErrProcessDone
	}
	if sig == sos.Kill {
		return zsim.W.K.Kill(p.Pid)
	}
	zsim.W.K.Signal(p.Pid, sig.String())
	return nil
}

func (p *Process) Release() error { return nil }

func LookPath(file string) (string, error) { return file, nil }

// ProcessState is what Wait leaves behind.
type ProcessState struct {
	code     int
	signaled bool // ended by a signal: on Unix such a process has not "exited"
}

func (s *ProcessState) ExitCode() int {
	if s.signaled {
		return -1
	}
	return s.code
}
func (s *ProcessState) Success() bool { return s.code == 0 && !s.signaled }
func (s *ProcessState) Exited() bool  { return !s.signaled }
func (s *ProcessState) String() string {
	if s.signaled {
		return "signal: killed"
	}
	return fmt.Sprintf("exit status %d", s.code)
}
