// Package rand is the simulator's stand-in for math/rand in transformed Zn packages:
// inside a world every value comes from the choice tape, so replay is exact.
package rand

import (
	rrand "math/rand"

	"github.com/DemoHn/Zn/znverif/zsim"
)

func Float64() float64 {
	if w := zsim.W; w != nil {
		return float64(w.T.Draw(1<<20)) / float64(1<<20)
	}
	return rrand.Float64()
}

func Int63() int64 {
	if w := zsim.W; w != nil {
		return int64(w.T.Draw(1<<30))<<32 | int64(w.T.Draw(1<<30))
	}
	return rrand.Int63()
}

func Intn(n int) int {
	if w := zsim.W; w != nil {
		return w.T.Draw(n)
	}
	return rrand.Intn(n)
}
