// Package rand is the simulator's stand-in for math/rand in transformed Zn packages:
// inside a world every value comes from the choice tape, so replay is exact. It also models
// the package's thread-safety contract: the top-level functions are safe for concurrent
// use, a *Rand obtained from New is NOT — every use of one is reported to the lockset race
// oracle as a write of that generator's state.
package rand

import (
	rrand "math/rand"

	"github.com/DemoHn/Zn/znverif/zsim"
)

func Float64() float64 {
	if w := zsim.W; w != nil {
		return float64(w.T.Draw(1<<20)) / float64(1<<20)
	}
	return rrand.Float64()
}

func Int63() int64 {
	if w := zsim.W; w != nil {
		return int64(w.T.Draw(1<<30))<<32 | int64(w.T.Draw(1<<30))
	}
	return rrand.Int63()
}

func Int() int { return int(Int63()) }

func Intn(n int) int {
	if w := zsim.W; w != nil {
		return w.T.Draw(n)
	}
	return rrand.Intn(n)
}

func Int63n(n int64) int64 { return Int63() % n }
func Int31n(n int32) int32 { return int32(Intn(int(n))) }
func Seed(seed int64)      {}

// Source / Rand: a private generator. Its state is a shared object as far as the race oracle
// is concerned.
type Source interface {
	Int63() int64
	Seed(seed int64)
}

type simSource struct{ real rrand.Source }

func (s *simSource) Int63() int64 {
	if zsim.W != nil {
		return Int63()
	}
	return s.real.Int63()
}
func (s *simSource) Seed(seed int64) { s.real.Seed(seed) }

func NewSource(seed int64) Source { return &simSource{real: rrand.NewSource(seed)} }

type Rand struct {
	src  Source
	real *rrand.Rand
}

func New(src Source) *Rand {
	r := &Rand{src: src}
	if ss, ok := src.(*simSource); ok {
		r.real = rrand.New(ss.real)
	}
	return r
}

func (r *Rand) touch(site string) {
	if zsim.Tracking {
		zsim.Access("math/rand.(*Rand)."+site, true, r, "rand.Rand.state (not safe for concurrent use)")
	}
}

func (r *Rand) Float64() float64 {
	r.touch("Float64")
	if zsim.W != nil || r.real == nil {
		return Float64()
	}
	return r.real.Float64()
}

func (r *Rand) Int63() int64 {
	r.touch("Int63")
	if zsim.W != nil || r.real == nil {
		return Int63()
	}
	return r.real.Int63()
}

func (r *Rand) Intn(n int) int {
	r.touch("Intn")
	if zsim.W != nil || r.real == nil {
		return Intn(n)
	}
	return r.real.Intn(n)
}

func (r *Rand) Int() int             { return int(r.Int63()) }
func (r *Rand) Int63n(n int64) int64 { return r.Int63() % n }
func (r *Rand) Seed(seed int64)      { r.touch("Seed") }
