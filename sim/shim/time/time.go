// Package time stands in for time inside transformed pkg/server: every deadline reads the
// simulated clock.
package time

import (
	rtime "time"

	"github.com/DemoHn/Zn/znverif/zsim"
)

type (
	Duration = rtime.Duration
	Time     = rtime.Time
)

const (
	Nanosecond  = rtime.Nanosecond
	Microsecond = rtime.Microsecond
	Millisecond = rtime.Millisecond
	Second      = rtime.Second
	Minute      = rtime.Minute
	Hour        = rtime.Hour
)

var epoch = rtime.Unix(1_700_000_000, 0)

func Now() Time {
	if w := zsim.W; w != nil && zsim.Active() {
		return epoch.Add(w.Now())
	}
	return rtime.Now()
}

func Since(t Time) Duration { return Now().Sub(t) }

func Sleep(d Duration) {
	if zsim.Active() {
		if zsim.Dying() {
			return
		}
		zsim.Sleep(d)
		return
	}
	rtime.Sleep(d)
}

func After(d Duration) <-chan Time {
	if !zsim.Active() {
		return rtime.After(d)
	}
	ch := make(chan Time, 1)
	w := zsim.W
	w.After(d, func() {
		select {
		case ch <- epoch.Add(w.Now()):
		default:
		}
	})
	return ch
}

type Ticker struct {
	C    <-chan Time
	stop bool
	real *rtime.Ticker
}

func NewTicker(d Duration) *Ticker {
	if !zsim.Active() {
		rt := rtime.NewTicker(d)
		return &Ticker{C: rt.C, real: rt}
	}
	ch := make(chan Time, 1)
	t := &Ticker{C: ch}
	w := zsim.W
	owner := zsim.CurrentProc()
	var tick func()
	tick = func() {
		if t.stop || (owner != nil && owner.Exited) {
			return
		}
		select {
		case ch <- epoch.Add(w.Now()):
		default:
		}
		w.After(d, tick)
	}
	w.After(d, tick)
	return t
}

func (t *Ticker) Stop() {
	t.stop = true
	if t.real != nil {
		t.real.Stop()
	}
}
