// Package time stands in for time inside transformed pkg/server: every deadline reads the
// simulated clock.
package time

import (
	rtime "time"

	"github.com/DemoHn/Zn/znverif/zsim"
)

type (
	Duration = rtime.Duration
	Time     = rtime.Time
)

const (
	Nanosecond  = rtime.Nanosecond
	Microsecond = rtime.Microsecond
	Millisecond = rtime.Millisecond
	Second      = rtime.Second
	Minute      = rtime.Minute
	Hour        = rtime.Hour
)

var epoch = rtime.Unix(1_700_000_000, 0)

func Now() Time {
	if w := zsim.W; w != nil && zsim.Active() {
		return epoch.Add(w.Now())
	}
	return rtime.Now()
}

func Since(t Time) Duration     { return Now().Sub(t) }
func Until(t Time) Duration     { return t.Sub(Now()) }
func Unix(sec, nsec int64) Time { return rtime.Unix(sec, nsec) }

type Month = rtime.Month
type Location = rtime.Location

var UTC = rtime.UTC

const (
	RFC3339     = rtime.RFC3339
	RFC3339Nano = rtime.RFC3339Nano
)

func ParseDuration(s string) (Duration, error) { return rtime.ParseDuration(s) }

// Timer is a one-shot timer on the simulated clock.
type Timer struct {
	C     <-chan Time
	ch    chan Time
	gen   int
	armed bool
	real  *rtime.Timer
}

func NewTimer(d Duration) *Timer {
	if !zsim.Active() {
		rt := rtime.NewTimer(d)
		return &Timer{C: rt.C, real: rt}
	}
	ch := make(chan Time, 1)
	t := &Timer{C: ch, ch: ch}
	t.arm(d)
	return t
}

func (t *Timer) arm(d Duration) {
	t.gen++
	gen := t.gen
	t.armed = true
	w := zsim.W
	w.After(d, func() {
		if t.gen != gen || !t.armed {
			return
		}
		t.armed = false
		select {
		case t.ch <- epoch.Add(w.Now()):
		default:
		}
	})
}

// Stop prevents the timer from firing; like the pre-Go-1.23 timers (the module says go 1.18)
// it does not drain a value already sent.
func (t *Timer) Stop() bool {
	if t.real != nil {
		return t.real.Stop()
	}
	was := t.armed
	t.armed = false
	return was
}

// Reset re-arms the timer; a stale value stays in the channel (go 1.18 semantics).
func (t *Timer) Reset(d Duration) bool {
	if t.real != nil {
		return t.real.Reset(d)
	}
	was := t.armed
	if zsim.Dying() {
		return was
	}
	t.arm(d)
	return was
}

func AfterFunc(d Duration, f func()) *Timer {
	if !zsim.Active() {
		return &Timer{real: rtime.AfterFunc(d, f)}
	}
	t := &Timer{}
	t.gen++
	gen := t.gen
	t.armed = true
	w := zsim.W
	owner := zsim.CurrentProc()
	w.After(d, func() {
		if t.gen == gen && t.armed && (owner == nil || !owner.Exited) {
			t.armed = false
			w.Spawn(owner, "time.AfterFunc", f)
		}
	})
	return t
}

func Sleep(d Duration) {
	if zsim.Active() {
		if zsim.Dying() {
			return
		}
		zsim.Sleep(d)
		return
	}
	rtime.Sleep(d)
}

func After(d Duration) <-chan Time {
	if !zsim.Active() {
		return rtime.After(d)
	}
	ch := make(chan Time, 1)
	w := zsim.W
	w.After(d, func() {
		select {
		case ch <- epoch.Add(w.Now()):
		default:
		}
	})
	return ch
}

type Ticker struct {
	C    <-chan Time
	stop bool
	real *rtime.Ticker
}

func NewTicker(d Duration) *Ticker {
	if !zsim.Active() {
		rt := rtime.NewTicker(d)
		return &Ticker{C: rt.C, real: rt}
	}
	ch := make(chan Time, 1)
	t := &Ticker{C: ch}
	w := zsim.W
	owner := zsim.CurrentProc()
	var tick func()
	tick = func() {
		if t.stop || (owner != nil && owner.Exited) {
			return
		}
		select {
		case ch <- epoch.Add(w.Now()):
		default:
		}
		w.After(d, tick)
	}
	w.After(d, tick)
	return t
}

func (t *Ticker) Stop() {
	t.stop = true
	if t.real != nil {
		t.real.Stop()
	}
}

func Tick(d Duration) <-chan Time { return NewTicker(d).C }

func (t *Ticker) Reset(d Duration) {
	if t.real != nil {
		t.real.Reset(d)
	}
}

func Parse(layout, value string) (Time, error) { return rtime.Parse(layout, value) }
func Date(year int, month Month, day, hour, min, sec, nsec int, loc *Location) Time {
	return rtime.Date(year, month, day, hour, min, sec, nsec, loc)
}

var Local = rtime.Local

const (
	January  = rtime.January
	Kitchen  = rtime.Kitchen
	DateTime = "2006-01-02 15:04:05"
)
