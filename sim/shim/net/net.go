// Package net stands in for net inside transformed pkg/server.
package net

import (
	"errors"
	rnet "net"
	"time"

	sos "github.com/DemoHn/Zn/znverif/shim/os"
	"github.com/DemoHn/Zn/znverif/zsim"
)

type (
	Conn     = rnet.Conn
	Listener = rnet.Listener
	Addr     = rnet.Addr
)

type simAddr string

func (a simAddr) Network() string { return "tcp" }
func (a simAddr) String() string  { return string(a) }

// TCPListener is the simulated listening socket handle.
type TCPListener struct {
	fd   *zsim.FD
	real *rnet.TCPListener
}

func Listen(network, address string) (Listener, error) {
	w := zsim.W
	if w == nil || w.K == nil {
		return rnet.Listen(network, address)
	}
	return &TCPListener{fd: w.K.Listen(address)}, nil
}

func (l *TCPListener) Accept() (Conn, error) {
	c, err := l.fd.Listener().Accept()
	if err != nil {
		return nil, err
	}
	return &simConn{c: c, addr: simAddr(l.fd.Listener().Addr)}, nil
}

func (l *TCPListener) Close() error {
	if zsim.Dying() {
		return nil
	}
	l.fd.Listener().Closed = true
	return l.fd.Close()
}

func (l *TCPListener) Addr() Addr { return simAddr(l.fd.Listener().Addr) }

// File returns a duplicate of the listening socket (what spawnProcess hands to the child).
func (l *TCPListener) File() (*sos.File, error) {
	if zsim.Dying() {
		return nil, errors.New("dying")
	}
	return sos.FromKFD(zsim.W.K.DupFD(l.fd), "listener"), nil
}

// FileListener turns an inherited descriptor into a listener (worker side).
func FileListener(f *sos.File) (Listener, error) {
	if f == nil || f.KFD() == nil || f.KFD().Kind() != "listener" {
		return nil, errors.New("file is not a listening socket")
	}
	return &TCPListener{fd: f.KFD()}, nil
}

type simConn struct {
	c    *zsim.ConnEnd
	addr simAddr
}

func (s *simConn) Read(b []byte) (int, error)         { return s.c.Read(b) }
func (s *simConn) Write(b []byte) (int, error)        { return s.c.Write(b) }
func (s *simConn) Close() error                       { return s.c.Close() }
func (s *simConn) LocalAddr() Addr                    { return s.addr }
func (s *simConn) RemoteAddr() Addr                   { return simAddr("client") }
func (s *simConn) SetDeadline(t time.Time) error      { return nil }
func (s *simConn) SetReadDeadline(t time.Time) error  { return nil }
func (s *simConn) SetWriteDeadline(t time.Time) error { return nil }

type (
	Error   = rnet.Error
	OpError = rnet.OpError
	TCPAddr = rnet.TCPAddr
	IP      = rnet.IP
)

var ErrClosed = rnet.ErrClosed

// Dial connects to the simulated listening socket (for code in pkg/server that would probe itself).
func Dial(network, address string) (Conn, error) {
	w := zsim.W
	if w == nil || w.K == nil {
		return rnet.Dial(network, address)
	}
	if len(w.K.Listeners) == 0 {
		return nil, errors.New("connection refused")
	}
	c, err := w.K.Dial(w.K.Listeners[0])
	if err != nil {
		return nil, err
	}
	return &simConn{c: c, addr: simAddr(address)}, nil
}

func (l *TCPListener) SetDeadline(t time.Time) error { return nil }

func JoinHostPort(host, port string) string                 { return rnet.JoinHostPort(host, port) }
func SplitHostPort(hostport string) (string, string, error) { return rnet.SplitHostPort(hostport) }
