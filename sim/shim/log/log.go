// Package log stands in for log inside transformed pkg/server: output goes to the event
// trace; Fatal* exits the simulated process with status 1 and records which call site did it.
package log

import (
	"fmt"
	rlog "log"
	"runtime"

	"github.com/DemoHn/Zn/znverif/zsim"
)

func Print(v ...interface{}) {
	if w := zsim.W; w != nil && zsim.Active() {
		w.Logf("log[%d]: %s", w.K.Getpid(), fmt.Sprint(v...))
		return
	}
	rlog.Print(v...)
}

func Printf(format string, v ...interface{}) { Print(fmt.Sprintf(format, v...)) }
func Println(v ...interface{})               { Print(fmt.Sprint(v...)) }

func fatal(msg string) {
	w := zsim.W
	if w != nil && zsim.Active() {
		if zsim.Dying() {
			return
		}
		_, file, line, _ := runtime.Caller(2)
		fn := "?"
		if pc, _, _, ok := runtime.Caller(2); ok {
			if f := runtime.FuncForPC(pc); f != nil {
				fn = f.Name()
			}
		}
		_ = file
		_ = line
		w.K.Fatal(fn, msg)
		return
	}
	rlog.Fatal(msg)
}

func Fatal(v ...interface{})                 { fatal(fmt.Sprint(v...)) }
func Fatalf(format string, v ...interface{}) { fatal(fmt.Sprintf(format, v...)) }
func Fatalln(v ...interface{})               { fatal(fmt.Sprint(v...)) }

func Panic(v ...interface{})                 { panic(fmt.Sprint(v...)) }
func Panicf(format string, v ...interface{}) { panic(fmt.Sprintf(format, v...)) }
func SetFlags(flag int)                      {}
func SetPrefix(prefix string)                {}
func Flags() int                             { return 0 }

const (
	Ldate         = rlog.Ldate
	Ltime         = rlog.Ltime
	Lmicroseconds = rlog.Lmicroseconds
	Lshortfile    = rlog.Lshortfile
	LstdFlags     = rlog.LstdFlags
)
