// Package signal stands in for os/signal inside transformed pkg/server.
package signal

import (
	ros "os"
	rsignal "os/signal"
	rsyscall "syscall"

	"github.com/DemoHn/Zn/znverif/zsim"
)

func Notify(c chan<- ros.Signal, sig ...ros.Signal) {
	w := zsim.W
	if w == nil || w.K == nil || !zsim.Active() {
		rsignal.Notify(c, sig...)
		return
	}
	w.K.Notify(func(name string) {
		var s ros.Signal = rsyscall.SIGTERM
		if name == "SIGINT" {
			s = ros.Interrupt
		}
		select {
		case c <- s:
		default:
		}
	})
}

func Stop(c chan<- ros.Signal) {
	if zsim.W != nil && zsim.Active() {
		return
	}
	rsignal.Stop(c)
}

func Ignore(sig ...ros.Signal) {
	if zsim.W != nil && zsim.Active() {
		return
	}
	rsignal.Ignore(sig...)
}
