// Package hlib is the part every harness shares: the run loop over seeds, violation
// records, tape-level shrinking, replay files and the per-process result file.
package hlib

import (
	"bytes"
	"crypto/sha256"
	"encoding/hex"
	"encoding/json"
	"flag"
	"fmt"
	"os"
	"os/exec"
	"path/filepath"
	"sort"
	"strings"
	"time"

	"github.com/DemoHn/Zn/znverif/zsim"
)

// Outcome is what one simulated run reports.
type Outcome struct {
	Sig      string      // "" = property held; otherwise the structured violation signature
	Symptom  string      // optional: what shrinking must preserve (default: Sig); lets the scenario-shape part of Sig simplify while shrinking
	Detail   string      // human-readable description of what went wrong
	Scenario interface{} // the workload of this run, written out
	Trace    []string    // event trace (tail)
	Keys     []string    // abstract-state / interleaving keys reached (for distinct counting)
	Trivial  bool        // the run exercised nothing of interest
	Faults   map[string]int
	Probes   map[string]int
	SimTime  time.Duration
	Evals    int // executions performed inside this run (default 1)
	Note     map[string]int
}

// RunFn executes one run; every choice it makes must come from the tape.
type RunFn func(t *zsim.Tape, cfg *Config) *Outcome

type Config struct {
	Property string
	Tier     string
	Seed     uint64
	Params   map[string]string
	RunIndex int // index of the run being executed (lets a harness enumerate a finite family first)
}

func (c *Config) Int(key string, def int) int {
	if v, ok := c.Params[key]; ok {
		var n int
		if _, err := fmt.Sscanf(v, "%d", &n); err == nil {
			return n
		}
	}
	return def
}

func (c *Config) Str(key, def string) string {
	if v, ok := c.Params[key]; ok {
		return v
	}
	return def
}

type Violation struct {
	Property   string            `json:"property"`
	Signature  string            `json:"signature"`
	Detail     string            `json:"detail"`
	Seed       uint64            `json:"seed"`
	Run        int               `json:"run"`
	Params     map[string]string `json:"params,omitempty"`
	Decisions  []uint32          `json:"decisions"`
	OrigLen    int               `json:"orig_decisions"`
	Scenario   interface{}       `json:"scenario"`
	Trace      []string          `json:"trace"`
	ShrinkRuns int               `json:"shrink_runs"`
	Count      int               `json:"count"` // how many runs hit this signature
	symptom    string
}

type Result struct {
	Property   string `json:"property"`
	Tier       string `json:"tier"`
	Seed       uint64 `json:"seed"`
	From, To   int
	Runs       int                    `json:"runs"`
	Evals      int                    `json:"evals"`
	NonTrivial int                    `json:"nontrivial"`
	Keys       []string               `json:"keys"` // distinct keys (capped)
	KeyCount   int                    `json:"key_count"`
	Violations []*Violation           `json:"violations"`
	Faults     map[string]int         `json:"faults"`
	Probes     map[string]int         `json:"probes"`
	Note       map[string]int         `json:"note"`
	Samples    []interface{}          `json:"samples"`
	SimSeconds float64                `json:"sim_seconds"`
	WallS      float64                `json:"wall_s"`
	Digests    map[string]string      `json:"digests,omitempty"`
	Extra      map[string]interface{} `json:"extra,omitempty"`
}

const keyCap = 100000 // per process; distinct counts are therefore lower bounds in very long runs

// Main is the entry point of a harness subcommand: `run` or `replay`.
func Main(property string, args []string, fn RunFn) int {
	if len(args) < 1 {
		fmt.Fprintln(os.Stderr, "usage: h <property> run|replay ...")
		return 2
	}
	switch args[0] {
	case "cold":
		return coldMain(property, fn)
	case "run":
		fs := flag.NewFlagSet("run", flag.ExitOnError)
		seed := fs.Uint64("seed", 1, "base seed")
		from := fs.Int("from", 0, "first run index")
		to := fs.Int("to", 100, "one past last run index")
		tier := fs.String("tier", "quick", "tier")
		out := fs.String("out", "", "result file")
		params := fs.String("params", "", "k=v,k=v")
		replayDir := fs.String("replaydir", "", "where to write replay files")
		maxShrink := fs.Int("shrink", 1500, "max shrink re-runs per violation")
		wallBudget := fs.Duration("wall", 0, "stop after this much wall time (0 = none)")
		fs.Parse(args[1:])
		cfg := &Config{Property: property, Tier: *tier, Seed: *seed, Params: parseParams(*params)}
		res := RunRange(cfg, fn, *from, *to, *maxShrink, *wallBudget)
		for _, v := range res.Violations {
			if *replayDir != "" {
				WriteReplay(*replayDir, v)
			}
		}
		b, _ := json.Marshal(res)
		if *out != "" {
			if err := os.WriteFile(*out, b, 0o644); err != nil {
				fmt.Fprintln(os.Stderr, err)
				return 2
			}
		} else {
			os.Stdout.Write(b)
		}
		return 0
	case "replay":
		fs := flag.NewFlagSet("replay", flag.ExitOnError)
		file := fs.String("file", "", "replay file")
		verbose := fs.Bool("v", false, "print scenario and trace")
		fs.Parse(args[1:])
		b, err := os.ReadFile(*file)
		if err != nil {
			fmt.Fprintln(os.Stderr, err)
			return 2
		}
		var v Violation
		if err := json.Unmarshal(b, &v); err != nil {
			fmt.Fprintln(os.Stderr, err)
			return 2
		}
		cfg := &Config{Property: property, Tier: "replay", Seed: v.Seed, Params: v.Params, RunIndex: v.Run}
		o := fn(zsim.ReplayTape(v.Decisions), cfg)
		if *verbose {
			sb, _ := json.MarshalIndent(o.Scenario, "", " ")
			fmt.Printf("scenario: %s\n", sb)
			for _, l := range o.Trace {
				fmt.Println("  ", l)
			}
		}
		if o.Sig == v.Signature {
			fmt.Printf("REPRODUCED property=%s signature=%s\n  %s\n", property, o.Sig, o.Detail)
			return 1
		}
		fmt.Printf("NOT-REPRODUCED property=%s recorded=%s got=%q\n", property, v.Signature, o.Sig)
		return 0
	}
	fmt.Fprintln(os.Stderr, "unknown subcommand", args[0])
	return 2
}

func parseParams(s string) map[string]string {
	m := map[string]string{}
	for _, kv := range strings.Split(s, ",") {
		if kv == "" {
			continue
		}
		i := strings.Index(kv, "=")
		if i < 0 {
			m[kv] = "1"
		} else {
			m[kv[:i]] = kv[i+1:]
		}
	}
	return m
}

func RunRange(cfg *Config, fn RunFn, from, to, maxShrink int, wall time.Duration) *Result {
	start := time.Now()
	res := &Result{Property: cfg.Property, Tier: cfg.Tier, Seed: cfg.Seed, From: from, To: to,
		Faults: map[string]int{}, Probes: map[string]int{}, Note: map[string]int{}, Digests: map[string]string{}}
	keys := map[string]bool{}
	bySig := map[string]*Violation{}
	var sigOrder []string
	for i := from; i < to; i++ {
		if wall > 0 && time.Since(start) > wall {
			break
		}
		t := zsim.NewTape(zsim.Mix(cfg.Seed, uint64(i)))
		cfg.RunIndex = i
		o := fn(t, cfg)
		res.Runs++
		if o.Evals > 0 {
			res.Evals += o.Evals
		} else {
			res.Evals++
		}
		if !o.Trivial {
			res.NonTrivial++
		}
		for _, k := range o.Keys {
			if len(keys) < keyCap {
				keys[Hash(k)] = true // hashed: the merged result stays small in the thorough tier
			}
		}
		for k, v := range o.Faults {
			res.Faults[k] += v
		}
		for k, v := range o.Probes {
			res.Probes[k] += v
		}
		for k, v := range o.Note {
			res.Note[k] += v
		}
		res.SimSeconds += o.SimTime.Seconds()
		if dd := cfg.Str("dump", ""); dd != "" {
			sb, _ := json.MarshalIndent(o.Scenario, "", " ")
			os.MkdirAll(dd, 0o755)
			os.WriteFile(filepath.Join(dd, fmt.Sprintf("%d.txt", i)), []byte(o.Sig+"\n"+o.Detail+"\n"+string(sb)+"\n"+strings.Join(o.Trace, "\n")+"\n"+fmt.Sprint(t.Decisions())), 0o644)
		}
		if nd := cfg.Int("digest", 0); nd > 0 && i-from < nd {
			sb, _ := json.Marshal(o.Scenario)
			res.Digests[fmt.Sprint(i)] = Hash(o.Sig, o.Detail, string(sb), strings.Join(o.Trace, "\n"), fmt.Sprint(t.Decisions()))
		}
		if len(res.Samples) < 3 && !o.Trivial && o.Scenario != nil {
			res.Samples = append(res.Samples, o.Scenario)
		}
		if o.Sig != "" {
			if v, ok := bySig[o.Sig]; ok {
				v.Count++
				continue
			}
			dec := t.Decisions()
			v := &Violation{Property: cfg.Property, Signature: o.Sig, Detail: o.Detail, Seed: cfg.Seed, Run: i,
				Params: cfg.Params, Decisions: dec, OrigLen: len(dec), Scenario: o.Scenario, Trace: tail(o.Trace, 120), Count: 1, symptom: symptomOf(o)}
			if sc := cfg.Int("shrinkcap", 0); sc > 0 && sc < maxShrink {
				maxShrink = sc // harnesses whose runs are expensive (child processes) cap the shrink budget
			}
			if maxShrink > 0 {
				shrinkViolation(v, fn, cfg, maxShrink)
			}
			bySig[o.Sig] = v
			if old, ok := bySig[v.Signature]; ok && old != v {
				old.Count++
			} else {
				bySig[v.Signature] = v
				if v.Signature != o.Sig {
					sigOrder = append(sigOrder, v.Signature)
				}
			}
			sigOrder = append(sigOrder, o.Sig)
		}
	}
	emitted := map[*Violation]bool{}
	for _, s := range sigOrder {
		if v := bySig[s]; v != nil && !emitted[v] && v.Signature == s {
			emitted[v] = true
			res.Violations = append(res.Violations, v)
		}
	}
	res.KeyCount = len(keys)
	for k := range keys {
		res.Keys = append(res.Keys, k)
	}
	sort.Strings(res.Keys)
	res.WallS = time.Since(start).Seconds()
	return res
}

func symptomOf(o *Outcome) string {
	if o.Symptom != "" {
		return o.Symptom
	}
	return o.Sig
}

func tail(s []string, n int) []string {
	if len(s) <= n {
		return s
	}
	return s[len(s)-n:]
}

func shrinkViolation(v *Violation, fn RunFn, cfg *Config, budget int) {
	runs := 0
	var best *Outcome
	// minimisation is also bounded in wall time (violations whose runs are long — a pool that
	// respawns without end — would otherwise eat the watchdog budget of the whole batch); the
	// bound only decides how small the replay file gets, never whether a violation is reported
	wall := time.Duration(cfg.Int("shrinkwall", 45)) * time.Second
	began := time.Now()
	test := func(dec []uint32) ([]uint32, bool) {
		if runs >= budget || time.Since(began) > wall {
			return nil, false
		}
		runs++
		t := zsim.ReplayTape(dec)
		cfg.RunIndex = v.Run
		o := fn(t, cfg)
		if o.Sig != "" && symptomOf(o) == v.symptom {
			best = o
			return t.Decisions(), true
		}
		return nil, false
	}
	v.Decisions = Shrink(v.Decisions, test)
	v.ShrinkRuns = runs
	if best != nil {
		v.Signature = best.Sig
		v.Detail = best.Detail
		v.Scenario = best.Scenario
		v.Trace = tail(best.Trace, 120)
	}
}

// Shrink minimises a decision list while test keeps succeeding. test returns the
// decisions the run actually consumed (normalised), which replace the candidate.
func Shrink(dec []uint32, test func([]uint32) ([]uint32, bool)) []uint32 {
	cur := trimZeros(dec)
	try := func(c []uint32) bool {
		c = trimZeros(c)
		if used, ok := test(c); ok {
			used = trimZeros(used)
			if less(used, cur) {
				cur = used
			} else if less(c, cur) {
				cur = c
			} else {
				return false
			}
			return true
		}
		return false
	}
	for pass := 0; pass < 8; pass++ {
		before := append([]uint32(nil), cur...)
		// 1. truncate (binary search on prefix length)
		lo, hi := 0, len(cur)
		for lo < hi {
			mid := (lo + hi) / 2
			if try(append([]uint32(nil), cur[:mid]...)) {
				hi = len(cur)
				if mid < hi {
					hi = mid
				}
			} else {
				lo = mid + 1
			}
			if hi > len(cur) {
				hi = len(cur)
			}
		}
		// 2. delete chunks
		for size := len(cur) / 2; size >= 1; size /= 2 {
			for i := 0; i+size <= len(cur); {
				c := append(append([]uint32(nil), cur[:i]...), cur[i+size:]...)
				if !try(c) {
					i += size
				}
			}
		}
		// 3. zero chunks
		for size := len(cur) / 2; size >= 1; size /= 2 {
			for i := 0; i+size <= len(cur); i += size {
				allZero := true
				for _, x := range cur[i : i+size] {
					if x != 0 {
						allZero = false
						break
					}
				}
				if allZero {
					continue
				}
				c := append([]uint32(nil), cur...)
				for j := i; j < i+size; j++ {
					c[j] = 0
				}
				try(c)
			}
		}
		// 4. lower individual values
		for i := 0; i < len(cur); i++ {
			for cur[i] > 0 {
				c := append([]uint32(nil), cur...)
				c[i] = cur[i] / 2
				if !try(c) {
					c[i] = cur[i] - 1
					if !try(c) {
						break
					}
				}
				if i >= len(cur) {
					break
				}
			}
		}
		if equal(before, cur) {
			break
		}
	}
	return cur
}

func trimZeros(d []uint32) []uint32 {
	n := len(d)
	for n > 0 && d[n-1] == 0 {
		n--
	}
	return d[:n]
}

func less(a, b []uint32) bool {
	if len(a) != len(b) {
		return len(a) < len(b)
	}
	for i := range a {
		if a[i] != b[i] {
			return a[i] < b[i]
		}
	}
	return false
}

func equal(a, b []uint32) bool {
	if len(a) != len(b) {
		return false
	}
	for i := range a {
		if a[i] != b[i] {
			return false
		}
	}
	return true
}

// ColdRequest / RunCold: execute the very same run (same tape from its beginning, same
// parameters) in a freshly exec'ed copy of this binary, so that every process-wide cache and
// lazily initialised structure is cold. The child is `h <prop> cold` with the request on stdin.
type ColdRequest struct {
	Property string            `json:"property"`
	Tape     zsim.TapeSpec     `json:"tape"`
	Params   map[string]string `json:"params"`
	RunIndex int               `json:"run_index"`
	Seed     uint64            `json:"seed"`
}

type ColdReply struct {
	Sig      string          `json:"sig"`
	Symptom  string          `json:"symptom"`
	Detail   string          `json:"detail"`
	Scenario json.RawMessage `json:"scenario"`
	Trace    []string        `json:"trace"`
	Keys     []string        `json:"keys"`
	Note     map[string]int  `json:"note"`
	Probes   map[string]int  `json:"probes"`
	Faults   map[string]int  `json:"faults"`
	Decisions []uint32       `json:"decisions"`
}

func RunCold(t *zsim.Tape, cfg *Config) (*Outcome, error) {
	params := map[string]string{}
	for k, v := range cfg.Params {
		params[k] = v
	}
	params["coldchild"] = "1"
	req := ColdRequest{Property: cfg.Property, Tape: t.Spec(), Params: params, RunIndex: cfg.RunIndex, Seed: cfg.Seed}
	b, _ := json.Marshal(req)
	cmd := exec.Command(os.Args[0], cfg.Property, "cold")
	cmd.Stdin = bytes.NewReader(b)
	var out, errb bytes.Buffer
	cmd.Stdout, cmd.Stderr = &out, &errb
	if err := cmd.Run(); err != nil {
		return nil, fmt.Errorf("cold child failed: %v: %s", err, errb.String())
	}
	var rep ColdReply
	if err := json.Unmarshal(out.Bytes(), &rep); err != nil {
		return nil, fmt.Errorf("cold child output: %v: %q", err, out.String())
	}
	var sc interface{}
	json.Unmarshal(rep.Scenario, &sc)
	t.Adopt(rep.Decisions)
	return &Outcome{Sig: rep.Sig, Symptom: rep.Symptom, Detail: rep.Detail, Scenario: sc, Trace: rep.Trace, Keys: rep.Keys, Note: rep.Note, Probes: rep.Probes, Faults: rep.Faults}, nil
}

func coldMain(property string, fn RunFn) int {
	var req ColdRequest
	if err := json.NewDecoder(os.Stdin).Decode(&req); err != nil {
		fmt.Fprintln(os.Stderr, err)
		return 2
	}
	cfg := &Config{Property: property, Tier: "cold", Seed: req.Seed, Params: req.Params, RunIndex: req.RunIndex}
	ct := req.Tape.Build()
	o := fn(ct, cfg)
	sb, _ := json.Marshal(o.Scenario)
	json.NewEncoder(os.Stdout).Encode(ColdReply{Decisions: ct.Decisions(), Sig: o.Sig, Symptom: o.Symptom, Detail: o.Detail, Scenario: sb, Trace: tail(o.Trace, 120), Keys: o.Keys, Note: o.Note, Probes: o.Probes, Faults: o.Faults})
	return 0
}

// WriteReplay stores the violation as a replay file and returns its path.
func WriteReplay(dir string, v *Violation) string {
	os.MkdirAll(dir, 0o755)
	h := sha256.Sum256([]byte(v.Signature))
	name := fmt.Sprintf("%s-%s.json", v.Property, hex.EncodeToString(h[:6]))
	p := filepath.Join(dir, name)
	b, _ := json.MarshalIndent(v, "", " ")
	os.WriteFile(p, b, 0o644)
	return p
}

// Hash is a short stable digest for keys and digests.
func Hash(parts ...string) string {
	h := sha256.New()
	for _, p := range parts {
		h.Write([]byte(p))
		h.Write([]byte{0})
	}
	return hex.EncodeToString(h.Sum(nil)[:8])
}
