#!/bin/sh
# runs every check's thorough tier in turn (development helper; each is also registered in MANIFEST.json)
cd /verif
for p in ${@:-C20 C16 C09 C18 C15 C17 C10 C11}; do
  /usr/bin/time -f "$p thorough: %es" ./bin/check $p --tier thorough 2>&1 | tail -4
done
