#!/bin/sh
# development helper: keep one scratch build around (DEV_SCRATCH) and re-sync the simulator
# sources into it without re-running the transformation.  Not used by any registered check.
set -e
export GOFLAGS=-mod=mod GOPROXY=off GOSUMDB=off GOTOOLCHAIN=local CGO_ENABLED=0
D=${DEV_SCRATCH:-/tmp/zndev}
if [ "$1" = "fresh" ] || [ ! -d "$D/src" ]; then
  rm -rf "$D"; mkdir -p /tmp/zndev.parent
  OUT=$(VERIF_SCRATCH=/tmp/zndev.parent /verif/bin/check build | head -1)
  mv "$OUT" "$D"; rmdir /tmp/zndev.parent 2>/dev/null || true
fi
for s in zsim shim hlib harness; do rm -rf "$D/src/znverif/$s"; cp -r /verif/sim/$s "$D/src/znverif/$s"; done
cd "$D/src" && go build -trimpath -o "$D/h" ./znverif/harness/h && echo "built $D/h"
