#!/bin/sh
# builds /verif/bin/check from sources on disk only (offline)
set -e
export GOFLAGS=-mod=mod GOPROXY=off GOSUMDB=off GOTOOLCHAIN=local
cd /verif/tool
go build -o /verif/bin/check ./cmd/check
echo "setup ok"
